"""C20, bounded native checks (stand-ins, labelled bounded) on the register description layer the AXI decoder is built from.

field_extract_sweep   "a write updates ... exactly the addressed register (fields according to their kind)": Register._from_bits_ is what
                      Register._basic_write_ hands the written word to.  For every kind of underlying field type (Bit, BitVector, Unsigned,
                      Signed, std.Enum over Bit, std.Enum over a vector) placed at every offset of a window, and a set of data words: the
                      value of the extracted field is bits [offset+width-1 : offset] of the word (reference: Python integers).
layout_sweep          "accesses to unmapped addresses leave every register unchanged / exactly the addressed register": the decoder is a
                      priority chain over RegisterObject._flatten_(); two objects that claim one address make a write change both.  For
                      two objects of 1 / 2 / 4 words at all relative word distances in a window (directly and as elements of a reg32.Array):
                      _flatten_ accepts the layout iff the two address ranges are disjoint.
"""

from __future__ import annotations

import json

_FIELD_SCRIPT = r'''
from __future__ import annotations
import itertools, json
from cohdl import Bit, BitVector, Unsigned, Signed, Full
from cohdl import std
from cohdl.std.reg import reg32

class EBit(std.Enum[Bit]):
    off = 0
    on = std.Enum(1)

class EVec(std.Enum[Unsigned[3]]):
    a = 0
    b = std.Enum(5)
    c = std.Enum(Full)

class EBv(std.Enum[BitVector[3]]):
    a = std.Enum("000")
    b = std.Enum("101")
    c = std.Enum("111")

KINDS = {"Bit": (None, 1), "BitVector": (None, 3), "Unsigned": ("u", 3), "Signed": ("s", 3), "Enum[Bit]": ("EBit", 1), "Enum[Unsigned[3]]": ("EVec", 3), "Enum[BitVector[3]]": ("EBv", 3)}
WORDS = [0x00000000, 0xFFFFFFFF, 0xA5A5A5A5, 0x5A5A5A5A, 0x0F1E2D3C, 0x80000001, 0x12345678]
bad, n = [], 0


def define(ann_src):
    # a class statement (std.Template evaluates the annotation strings in the defining module)
    ns = dict(globals())
    exec("class R(reg32.Register):\n    f: " + ann_src + "\n", ns)
    return ns["R"]


for kind, (T, width) in KINDS.items():
    for offset in (0, 1, 4, 8, 13, 28):
        if offset + width > 32:
            continue
        if kind == "Bit":
            ann = f"reg32.MemField[{offset}]"
        elif kind == "BitVector":
            ann = f"reg32.MemField[{offset + width - 1}:{offset}]"
        elif kind == "Unsigned":
            ann = f"reg32.MemUField[{offset + width - 1}:{offset}]"
        elif kind == "Signed":
            ann = f"reg32.MemSField[{offset + width - 1}:{offset}]"
        else:
            ann = f"reg32.MemField[{offset}, {T}]"
        try:
            R = define(ann)
        except Exception as e:
            bad.append([kind, offset, "definition rejected: " + type(e).__name__ + ": " + str(e)[:80]])
            continue
        for w in WORDS:
            n += 1
            try:
                ext = R._from_bits_(BitVector[32](Unsigned[32](w)), std.Value)
                got = str(std.to_bits(ext.f.val()))
            except Exception as e:
                bad.append([kind, offset, hex(w), "raised " + type(e).__name__ + ": " + str(e)[:80]])
                break
            want = format((w >> offset) & ((1 << width) - 1), f"0{width}b")
            if got != want:
                bad.append([kind, offset, hex(w), got, want])
                break
print("RESULT" + json.dumps({"evaluations": n, "bad": bad[:8]}))
'''

_LAYOUT_SCRIPT = r'''
from __future__ import annotations
import itertools, json
from cohdl import std
from cohdl.std.reg import reg32

class Mem1(reg32.Memory, word_count=1):
    pass


class Mem2(reg32.Memory, word_count=2):
    pass


class Mem4(reg32.Memory, word_count=4):
    pass


bad, n = [], 0
BASE = 0x40


def accepted(body):
    ns = dict(globals())
    try:
        exec("class M(reg32.AddrMap):\n" + body, ns)
        ns["M"]()._flatten_()
        return True
    except AssertionError:
        return False


for wa, wb in itertools.product((1, 2, 4), repeat=2):
    for dist in range(0, 6):  # distance of the second object from the first, in words
        n += 1
        disjoint = dist >= wa
        got = accepted(f"    a: Mem{wa}[{BASE}]\n    b: Mem{wb}[{BASE + 4 * dist}]\n")
        if got != disjoint:
            bad.append(["two-objects", {"words_a": wa, "words_b": wb, "distance_words": dist}, "accepted" if got else "rejected", "disjoint" if disjoint else "overlapping"])
# elements of an array: element size wc words, step in bytes (three elements)
for wc in (1, 2, 4):
    for step_words in range(1, 6):
        n += 1
        step = 4 * step_words
        disjoint = step_words >= wc
        got = accepted(f"    arr: reg32.Array[Mem{wc}, {BASE}:{BASE + 3 * step}:{step}]\n    ctrl: reg32.MemWord[{BASE + 3 * step + 64}]\n")
        if got != disjoint:
            bad.append(["array-elements", {"element_words": wc, "step_words": step_words}, "accepted" if got else "rejected", "disjoint" if disjoint else "overlapping"])
print("RESULT" + json.dumps({"evaluations": n, "bad": bad[:8]}))
'''


def _sweep(script, check, what, bound, replay):
    from contracts.c06_extra import _run_design

    rc, text = _run_design(script)
    if "RESULT" not in text:
        return {"problems": [f"{check}: the script failed: {text[-400:]}"]}
    data = json.loads(text[text.index("RESULT") + 6:].splitlines()[0])
    fails = {}
    for b in data["bad"]:
        fails.setdefault(str(b[0]), f"{b}")
    violations = []
    for key, w in sorted(fails.items()):
        oid = f"C20/{check}[{key}]#bounded"
        violations.append({"kind": "custom", "qual": f"<C20 {check}>", "case": key, "oid": oid, "check": check, "key": key, "assignment": {"case": key}, "solver": {"what": w}, "reproduced": True,
                           "replay_payload": {"property": "C20", "custom": replay, "key": key, "obligation": oid, "verifier_output": w}})
    return {"evaluations": data["evaluations"], "distinct": data["evaluations"], "violations": violations, "samples": [{"evaluations": data["evaluations"]}],
            "bounded": [{"function": what, "case": check, "evaluations": data["evaluations"], "exhaustive_within_bound": True, "bound": bound}]}


def field_extract_sweep(tier="quick", seed=0):
    return _sweep(_FIELD_SCRIPT, "field_extract_sweep", "cohdl.std.reg.reg:Register._from_bits_ / Field.__init__(extract=True)",
                  "7 underlying field types x offsets {0,1,4,8,13,28} x 7 data words", "contracts.c20_layout.replay_field_extract")


def layout_sweep(tier="quick", seed=0):
    return _sweep(_LAYOUT_SCRIPT, "layout_sweep", "cohdl.std.reg.reg:RegisterObject._flatten_",
                  "two memories of 1/2/4 words at word distances 0..5; arrays of 3 elements of 1/2/4 words with steps of 1..5 words", "contracts.c20_layout.replay_layout")


_KEYS_SCRIPT = r'''
from __future__ import annotations
import itertools, json
from cohdl import BitVector, Unsigned
from cohdl import std
from cohdl.std.reg import reg32
from cohdl.std.axi import axi4_light as axi

bad, n = [], 0
# (a) field specialisations: equal exactly for equal (position, kind, default)
specs = {}
for (hi, lo), default in itertools.product(((7, 0), (7, 4), (3, 0)), (None, 5, 9)):
    n += 1
    specs[(hi, lo, default)] = reg32.MemUField[hi:lo] if default is None else reg32.MemUField[hi:lo, default]
for k1, k2 in itertools.combinations(specs, 2):
    n += 1
    if specs[k1] is specs[k2]:
        bad.append(["field-class-shared", k1, k2])

# the default a register is reset to is the one of ITS declaration
class RegA(reg32.Register):
    f: reg32.MemUField[7:0, 5]

class RegB(reg32.Register):
    f: reg32.MemUField[7:0, 9]

class TopAB(axi.addr_map_entity(addr_width=8)):
    a: RegA[0x0]
    b: RegB[0x4]

t = std.VhdlCompiler.to_string(TopAB)
import re
inits = sorted(set(re.findall(r":= unsigned'\(\"(\d{8})\"\)", t)))
n += 1
if not ("00000101" in inits and "00001001" in inits):
    bad.append(["field-default", inits, ["00000101", "00001001"]])

# (b) the address map of a derived entity class contains the registers the derived class adds, whichever class is compiled first
class MapA(axi.addr_map_entity(addr_width=8)):
    r0: reg32.MemWord[0]

class MapB(MapA):
    r1: reg32.MemWord[4]

std.VhdlCompiler.to_string(MapA)
vb = std.VhdlCompiler.to_string(MapB)
n += 1
if "(7 downto 2)) = 1" not in vb:
    bad.append(["derived-map-lost-register", "MapB compiled after MapA does not decode r1 @ 0x4"])
print("RESULT" + json.dumps({"evaluations": n, "bad": bad[:6]}))
'''


def map_keys_sweep(tier="quick", seed=0):
    return _sweep(_KEYS_SCRIPT, "map_keys_sweep", "cohdl.std.reg.reg:_FieldArg.__eq__ / __hash__ (std.Template cache of the field classes); axi4_light.addr_map_entity._gen_addr_map_",
                  "9 field specialisations (3 positions x defaults none / 5 / 9), all pairs; one two-register map; one base / derived entity pair", "contracts.c20_layout.replay_map_keys")


def replay_map_keys(payload):
    r = map_keys_sweep()
    hit = [v for v in r.get("violations", []) if v["key"] == payload["key"]]
    return {"reproduced": bool(hit), "detail": hit[0]["solver"]["what"] if hit else "field classes are shared exactly by equal declarations; the derived map decodes its own registers"}


def replay_field_extract(payload):
    r = field_extract_sweep()
    hit = [v for v in r.get("violations", []) if v["key"] == payload["key"]]
    return {"reproduced": bool(hit), "detail": hit[0]["solver"]["what"] if hit else "every field is extracted from its own bit range"}


def replay_layout(payload):
    r = layout_sweep()
    hit = [v for v in r.get("violations", []) if v["key"] == payload["key"]]
    return {"reproduced": bool(hit), "detail": hit[0]["solver"]["what"] if hit else "overlapping layouts are rejected, disjoint ones accepted"}
