"""C06: VhdlScope.format_literal, array branch.

An array default value with fewer explicit elements than the array has entries must be completed with an
`others => <element default>` choice -- an aggregate that leaves elements unassociated is not legal VHDL;
when all `count` elements are given no others choice is needed.  The element count is symbolic (any
count >= number of given elements, the invariant established by Array.__init__); the given elements are
concrete integers so that the recursive calls for the elements are interpreted as well.
"""

from __future__ import annotations

from cohdl._core._array import Array

from pyvc import contracts as C
from pyvc import sym
from pyvc.contracts import Case, contract, PyInt
from pyvc.values import SObj, SFmt
from contracts.c05_format_cast import Built, SCOPE

PROPS = ("C06",)


def array_shape(values):
    def make(env):
        return SObj(Array, _value=list(values), _elemtype_=int, _count_=env["count"])

    return Built([], make, lambda asg: "None", lambda asg: None)


def text_of(x):
    if isinstance(x, str):
        return x
    if isinstance(x, SFmt) and all(isinstance(p, str) for p in x.parts):
        return "".join(x.parts)
    return None


def array_spec(values):
    def spec(sx, self, obj, count):
        n = len(values)
        sx.require(count >= n)
        elems = [f"{i} => {v}" for i, v in enumerate(values)]
        if sx.branch(count > n):
            elems.append("others => 0")
        want = f'( {", ".join(elems)} )'
        return C.Pred(lambda res: text_of(res) == want, want)

    return spec


con = contract("cohdl._compiler.backend.vhdl._vhdl_repr:VhdlScope.format_literal", PROPS)
for values in ((), (5,), (5, 6), (1, 2, 3)):
    c = Case(f"array-{len(values)}-given", [SCOPE, array_shape(values)], (lambda vs: lambda sx, self, obj: array_spec(vs)(sx, self, obj, sx.it.case_env["count"]))(values), requires=(lambda n: lambda env: env["count"] >= n)(len(values)))
    c.extra_shapes = [PyInt("count", None, None, 0, 9)]
    c.native = False
    con.cases.append(c)
