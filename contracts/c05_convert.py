"""C05: type conversions on construction / assignment preserve the value or
are rejected.  The acceptance matrix and the converted value below are written
from the statement of C05 (specs = conversion matrix), not from the code.

  Unsigned[n] -> Unsigned[m]   n <= m   zero-extends
  Signed[n]   -> Signed[m]     n <= m   sign-extends
  Unsigned[n] -> Signed[m]     n <  m   keeps the number
  Signed      -> Unsigned               rejected
  BitVector[n] <-> Signed/Unsigned[n]   equal width: bits copied; else rejected
  BitVector[n] -> BitVector[m]  n == m
  Null / Full                          fill with zeros / ones
  int / Integer literal                 must be representable in the target
  Bit <-> vector                       rejected
"""

from __future__ import annotations

import itertools

from cohdl import Unsigned, Signed, BitVector, Integer, Bit, Null, Full
from cohdl._core._bit import BitState
from cohdl._core._boolean import _Boolean, true, false

from pyvc import contracts as C
from pyvc import interp as I
from pyvc import sym
from pyvc.contracts import Case, PyInt, PyBool, Const, contract
from pyvc.values import SCls, SObj
from contracts import core_models as M
from contracts.core_models import UShape, SShape, BVShape, IntegerShape, BitShape, ClsShape, NULL, FULL, NONE, U, S, vec, width, uval, sval, bits, is_kind
from contracts.c09_bounded import all_vec, bound

PROPS = ("C05",)
P2 = sym.pow2


# ----------------------------------------------------------------------
# the conversion matrix (from the statement)
# ----------------------------------------------------------------------
def convert(sx, tkind, tw, src):
    """value of kind tkind[tw] after assigning src, or rejection"""
    if isinstance(src, SObj) and src.kind is Integer:
        src = src.fields["_val"]
    if sym.is_intlike(src):
        if isinstance(src, bool) or sym.is_symbool(src):
            src = sym.to_int(src)
        if tkind is Unsigned:
            sx.require(sym.And(src >= 0, src < P2(tw)))
            return U(tw, src)
        if tkind is Signed:
            half = P2(sym.to_int(tw) - 1)
            sx.require(sym.And(src >= -half, src < half))
            return S(tw, src)
        sx.reject()  # plain BitVector has no numeric interpretation
    if src is Null:
        return vec(tkind, tw, 0)
    if src is Full:
        return vec(tkind, tw, P2(tw) - 1)
    if is_kind(src, BitVector):
        sw = width(src)
        known = src.fields.get("known", True)
        if tkind is Unsigned and is_kind(src, Unsigned):
            sx.require(sw <= tw)
            return vec(Unsigned, tw, uval(src), known)
        if tkind is Signed and is_kind(src, Signed):
            sx.require(sw <= tw)
            return S(tw, sval(src), known)
        if tkind is Signed and is_kind(src, Unsigned):
            sx.require(sw < tw)
            return S(tw, uval(src), known)
        if tkind is Unsigned and is_kind(src, Signed):
            sx.reject()
        # BitVector <-> anything of equal width: the bits, unchanged
        sx.require(sym.eq(sw, tw))
        return vec(tkind, tw, bits(src), known)
    sx.reject()  # Bit, bool, None, other objects


def spec_init(sx, self, val=None):
    """K[w].__init__(val): the new object's view"""
    kind = self.kind
    w = width(self)
    if val is None:
        return C.Effect(None, {0: SObj(self.cls, bits=0, known=False)})
    r = convert(sx, kind, w, val)
    return C.Effect(None, {0: SObj(self.cls, bits=bits(r), known=r.fields["known"])})


def spec_assign(sx, self, other):
    kind = self.kind
    r = convert(sx, kind, width(self), other)
    return C.Effect(None, {0: SObj(self.cls, bits=bits(r), known=r.fields["known"])})


class Blank(UShape):
    """a freshly allocated K[w] object (for __init__): bits not yet set"""

    def __init__(self, kind, wname, src_kind):
        super().__init__(wname, "_unused_" + wname)
        self.kind = kind
        self.src_kind = src_kind
        self.names = [wname]

    def make(self, ctx, env):
        return SObj(SCls(self.kind, width=env[self.wname]))

    def assume(self, env):
        return env[self.wname] >= 1

    def concrete_src(self, asg):
        return f"{self.src_kind}[{asg[self.wname]}].__new__({self.src_kind}[{asg[self.wname]}])"

    def concrete_spec(self, asg):
        return SObj(SCls(self.kind, width=asg[self.wname]))

    def sample(self, rng, asg):
        asg[self.wname] = rng.randint(1, 8) if rng.random() < 0.85 else rng.choice([16, 31, 32, 33, 64, 65])


KINDS = ((Unsigned, "cohdl.Unsigned", UShape), (Signed, "cohdl.Signed", SShape), (BitVector, "cohdl.BitVector", BVShape))


def source_shapes():
    return [
        ("int", PyInt("k")),
        ("Integer", IntegerShape("k")),
        ("unsigned", UShape("w2", "b")),
        ("signed", SShape("w2", "b")),
        ("bitvector", BVShape("w2", "b")),
        ("null", NULL),
        ("full", FULL),
        ("bit", BitShape(BitState.HIGH)),
        ("bool", PyBool("flag")),
    ]


# ---- __init__ of Unsigned / Signed: fully interpreted ---------------------------------------
for K, srck, VS in KINDS[:2]:
    mod = f"cohdl._core._{K.__name__.lower()}:{K.__name__}.__init__"
    con = contract(mod, PROPS)
    for nm, shp in source_shapes() + [("none", NONE)]:
        if nm == "bool":
            continue  # bool is an int for isinstance: covered by the int case natively
        con.cases.append(Case(nm, [Blank(K, "w", srck), shp], spec_init))


# ---- _assign: acceptance proved on the real body (bit-level part opaque),
#      value effect checked by bounded native enumeration -------------------------------
def assign_samples(rng, n, tier):
    wm = bound(tier, 5, 7)
    for a in all_vec("w", "a", wm):
        for b in all_vec("w2", "b", wm):
            d = dict(a)
            d.update(b)
            yield d


def assign_int_samples(rng, n, tier):
    wm = bound(tier, 6, 8)
    for a in all_vec("w", "a", wm):
        if a["a"] not in (0, 2 ** a["w"] - 1, 1):
            continue
        lim = 2 ** a["w"]
        for k in range(-lim - 2, lim + 3):
            d = dict(a)
            d["k"] = k
            yield d


for K, srck, VS in KINDS:
    modname = {Unsigned: "_unsigned", Signed: "_signed", BitVector: "_bit_vector"}[K]
    q = f"cohdl._core.{modname}:{K.__name__}._assign"
    con = contract(q, PROPS)
    con.summary = spec_assign
    for nm, shp in source_shapes():
        c = Case(nm, [VS("w", "a"), shp], spec_assign)
        c.symbolic_effects = False  # bit copy is opaque to the prover: native only
        if nm in ("unsigned", "signed", "bitvector"):
            c.samples = assign_samples
            c.bound = "exhaustive: all (target width, source width) <= 5 (quick) / <= 7 (thorough), all target and source values"
        elif nm in ("int", "Integer"):
            c.samples = assign_int_samples
            c.bound = "exhaustive: widths <= 6 (quick) / <= 8 (thorough), literals in [-2**w-2, 2**w+2], target initially 0 / 1 / all-ones"
        con.cases.append(c)


# ---- Bit: finite domain, enumerated completely ---------------------------------------------
def spec_bitstate_construct(sx, arg):
    if arg is None:
        return BitState.UNINITIALZED
    if isinstance(arg, SObj) and arg.kind is Integer:
        arg = arg.fields["_val"]
    if arg is true:
        return BitState.HIGH
    if arg is false:
        return BitState.LOW
    if isinstance(arg, BitState):
        return arg
    if isinstance(arg, SObj) and arg.kind is Bit:
        return arg.fields["_val"]
    if isinstance(arg, SObj) and arg.kind is _Boolean:
        v = arg.fields["_value"]
        return BitState.HIGH if sx.branch(v) else BitState.LOW
    if sym.is_intlike(arg):
        if not (isinstance(arg, bool) or sym.is_symbool(arg)):
            sx.require(sym.Or(sym.eq(arg, 0), sym.eq(arg, 1)))
        return BitState.HIGH if sx.branch(sym.Not(sym.eq(sym.to_int(arg), 0))) else BitState.LOW
    if isinstance(arg, str):
        table = {"0": BitState.LOW, "1": BitState.HIGH, "U": BitState.UNINITIALZED, "X": BitState.UNKNOWN, "-": BitState.DONT_CARE}
        if arg in table:
            return table[arg]
        sx.reject()
    if arg is Null:
        return BitState.LOW
    if arg is Full:
        return BitState.HIGH
    sx.reject()  # vectors and anything else


con = contract("cohdl._core._bit:BitState.construct", PROPS)
con.summary = spec_bitstate_construct
con.cases.append(Case("none", [NONE], spec_bitstate_construct))
con.cases.append(Case("int", [PyInt("k", None, None, -3, 4)], spec_bitstate_construct))
con.cases.append(Case("Integer", [IntegerShape("k", None, None, -3, 4)], spec_bitstate_construct))
con.cases.append(Case("bool", [PyBool("flag")], spec_bitstate_construct))
con.cases.append(Case("true", [Const(true, "cohdl.true")], spec_bitstate_construct))
con.cases.append(Case("false", [Const(false, "cohdl.false")], spec_bitstate_construct))
con.cases.append(Case("null", [NULL], spec_bitstate_construct))
con.cases.append(Case("full", [FULL], spec_bitstate_construct))
for st in BitState:
    con.cases.append(Case(f"state-{st.name}", [Const(st, f"cohdl.BitState.{st.name}")], spec_bitstate_construct))
    con.cases.append(Case(f"bit-{st.name}", [BitShape(st)], spec_bitstate_construct))
for ch in ("0", "1", "U", "X", "-", "Z", "2", ""):
    con.cases.append(Case(f"str-{ch or 'empty'}", [Const(ch, repr(ch))], spec_bitstate_construct))
con.cases.append(Case("unsigned", [UShape("w", "a")], spec_bitstate_construct))
con.cases.append(Case("signed", [SShape("w", "a")], spec_bitstate_construct))
con.cases.append(Case("bitvector", [BVShape("w", "a")], spec_bitstate_construct))


def spec_bit_assign(sx, self, other):
    sx.require(other is not None)
    st = spec_bitstate_construct(sx, other)
    return C.Effect(None, {0: SObj(Bit, _val=st)})


con = contract("cohdl._core._bit:Bit._assign", PROPS)
con.summary = spec_bit_assign
for nm, shp in [
    ("none", NONE),
    ("int", PyInt("k", None, None, -3, 4)),
    ("bool", PyBool("flag")),
    ("null", NULL),
    ("full", FULL),
    ("unsigned", UShape("w", "a")),
    ("signed", SShape("w", "a")),
    ("bitvector", BVShape("w", "a")),
    ("str-1", Const("1", "'1'")),
    ("str-bad", Const("10", "'10'")),
] + [(f"bit-{st.name}", BitShape(st)) for st in BitState]:
    con.cases.append(Case(nm, [BitShape(BitState.LOW), shp], spec_bit_assign))
    con.cases.append(Case(nm + "@U", [BitShape(BitState.UNINITIALZED), shp], spec_bit_assign))
