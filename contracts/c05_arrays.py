"""C05 / C03, bounded native check (stand-in, labelled bounded): assignments to ARRAY-typed objects as a whole.

"Null/Full fill with zeros/ones ... in every assignment form (`<<=`, `@=`, `^=`, .next/.value/.push, slices and elements)" and
"a variable assigned with `@=` changes immediately": for a Signal / Variable of type Array[Unsigned[4], 3] and every assignment
form (next, push on a Signal; value on a Variable; each as property store and as augmented assignment) and every kind of source
(Null, Full, list literal, tuple literal, another array object) the design is compiled with the real compiler and the statements
of the emitted process are EVALUATED (whole-array aggregates, whole-array copies, element assignments, in program order): after
the activation every element of the target holds the assigned value (0 / 15 / the literal / the element of the source array);
a variable is assigned with `:=`, a signal with `<=`, and the process of a PUSHED signal starts with the signal's default (C03:
"its default in every step in which it is not pushed").
"""

from __future__ import annotations

import json

_SCRIPT = r'''
from __future__ import annotations
import itertools, json, linecache, re
from cohdl import Entity, Port, Bit, Unsigned, Signal, Variable, Array, Null, Full
from cohdl import std

INIT = [1, 2, 3]
OTHER = [4, 5, 6]
SOURCES = {"Null": ("Null", [0, 0, 0]), "Full": ("Full", [15, 15, 15]), "list": ("[7, 8, 9]", [7, 8, 9]), "tuple": ("(10, 11, 12)", [10, 11, 12]), "array": ("other", OTHER)}
FORMS = {
    "next-property": ("Signal", "tgt.next = {src}"), "next-augmented": ("Signal", "tgt <<= {src}"),
    "push-property": ("Signal", "tgt.push = {src}"), "push-augmented": ("Signal", "tgt ^= {src}"),
    "value-property": ("Variable", "tgt.value = {src}"), "value-augmented": ("Variable", "tgt @= {src}"),
}
bad, rejected, n = [], [], 0


def build(qual, stmt):
    ns = dict(globals())
    src = f"""
class E(Entity):
    clk = Port.input(Bit)
    q = Port.output(Unsigned[4], default=0)

    def architecture(self):
        tgt = {qual}[Array[Unsigned[4], 3]]({INIT}, name="tgt")
        other = Signal[Array[Unsigned[4], 3]]({OTHER}, name="other")

        @std.sequential(std.Clock(self.clk))
        def proc():
            nonlocal tgt
            {stmt}
            self.q <<= tgt[0]
"""
    fname = f"<array design {len(linecache.cache)}>"
    linecache.cache[fname] = (len(src), None, src.splitlines(True), fname)  # the compiler reads the source of the context
    exec(compile(src, fname, "exec"), ns)
    return std.VhdlCompiler.to_string(ns["E"])


LIT = re.compile(r"unsigned'\(\"([01]{4})\"\)")


def evaluate(vhdl, variable, pushed):
    """the elements of tgt after one activation of proc, from the statements of the process in program order"""
    start = vhdl.index("proc: process")
    body = vhdl[start:vhdl.index("end process", start)]
    body = body[body.index("begin"):]
    state = {"tgt": list(INIT), "other": list(OTHER)}
    first = True
    for line in body.splitlines():
        m = re.match(r"\s*tgt(?:\((\d+)\))?\s*(<=|:=)\s*(.*);\s*$", line)
        if not m:
            continue
        idx, rhs = m.group(1), m.group(3).strip()
        if m.group(2) != (":=" if variable else "<="):
            return None, f"{'variable' if variable else 'signal'} assigned with {m.group(2)}"
        if first and pushed:
            # a pushed signal carries its default in every step in which it is not pushed: the process starts with the default
            first = False
            elems = dict((int(i), int(b, 2)) for i, b in re.findall(r"(\d+)\s*=>\s*unsigned'\(\"([01]{4})\"\)", rhs))
            if idx is not None or [elems.get(i) for i in range(3)] != INIT:
                return None, f"the process does not start with the default of the pushed signal (first assignment: {line.strip()!r})"
            continue
        first = False
        if idx is not None:
            lit = LIT.fullmatch(rhs)
            if not lit:
                return None, f"unexpected element source {rhs!r}"
            state["tgt"][int(idx)] = int(lit.group(1), 2)
        elif rhs in state:
            state["tgt"] = list(state[rhs])
        elif rhs.startswith("("):
            elems = dict((int(i), int(b, 2)) for i, b in re.findall(r"(\d+)\s*=>\s*unsigned'\(\"([01]{4})\"\)", rhs))
            if sorted(elems) != [0, 1, 2]:
                return None, f"unexpected aggregate {rhs!r}"
            state["tgt"] = [elems[i] for i in range(3)]
        else:
            return None, f"unexpected source {rhs!r}"
    return state["tgt"], None


for (form, (qual, stmt)), (sname, (src, want)) in itertools.product(FORMS.items(), SOURCES.items()):
    n += 1
    try:
        vhdl = build(qual, stmt.format(src=src))
    except Exception as e:
        rejected.append(f"{form}<-{sname}: {type(e).__name__}")
        continue  # rejected at compile time: nothing is assigned wrongly
    got, problem = evaluate(vhdl, qual == "Variable", form.startswith("push"))
    if problem is not None:
        bad.append([f"{form}<-{sname}", problem])
    elif got != want:
        bad.append([f"{form}<-{sname}", {"elements after the activation": got, "assigned": want}])
print("RESULT" + json.dumps({"evaluations": n, "bad": bad, "rejected": rejected}))
'''


def array_assign_sweep(tier="quick", seed=0):
    from contracts.c06_extra import _run_design

    rc, text = _run_design(_SCRIPT)
    if "RESULT" not in text:
        return {"problems": [f"array_assign_sweep: the script failed: {text[-400:]}"]}
    data = json.loads(text[text.index("RESULT") + 6:].splitlines()[0])
    if len(data["rejected"]) == data["evaluations"]:
        return {"problems": [f"array_assign_sweep: every design was rejected ({data['rejected'][:3]}): nothing was checked"]}
    violations = []
    for key, what in data["bad"]:
        oid = f"C05/array_assign_sweep[{key}]#bounded"
        w = f"{key}: {what}"
        violations.append({"kind": "custom", "qual": "<C05 whole-array assignments>", "case": key, "oid": oid, "check": "array_assign_sweep", "key": key, "assignment": {"case": key}, "solver": {"what": w}, "reproduced": True,
                           "replay_payload": {"property": "C05", "custom": "contracts.c05_arrays.replay_array_assign", "key": key, "obligation": oid, "verifier_output": w}})
    return {"evaluations": data["evaluations"], "distinct": data["evaluations"], "violations": violations, "samples": [{"evaluations": data["evaluations"], "rejected at compile time": data["rejected"]}],
            "bounded": [{"function": "cohdl._core._type_qualifier:Signal._next_setter_replacement / _push_setter_replacement, Variable._value_setter_replacement (array targets), TypeQualifier._perform_array_elem_assignment",
                         "case": "array_assign_sweep", "evaluations": data["evaluations"], "exhaustive_within_bound": True,
                         "bound": "Array[Unsigned[4], 3]; 6 assignment forms x 5 kinds of source (Null, Full, list, tuple, array object)"}]}


# ---- contracts: the three setter replacements with an ARRAY target ---------------------------------------------------------
# Array._assign is a pure check (it does not store the source), so an assignment whose emitted source is a copy of the target's
# own placeholder value does not assign the source.  Postcondition (from the statement: the assigned value is the source's):
# for a source that is not itself an array the result is the element-wise assignment produced by
# TypeQualifier._perform_array_elem_assignment FOR THAT SOURCE; for an array source it is an assignment whose source is the
# array object that was passed.  _perform_array_elem_assignment itself: Null / Full / sequences of the array's length are
# accepted (call of the element loop with the source), everything else is rejected.
def _register():
    import cohdl
    from cohdl import Array, Null, Full, Signal, Unsigned, Variable
    from cohdl._core._intrinsic_operations import AssignMode, _IntrinsicAssignment, _IntrinsicSynthesizableFunctionCall

    from pyvc import contracts as C
    from pyvc.contracts import Case, Const, contract
    from pyvc.values import Closure, SObj
    from cohdl._core._type_qualifier import TypeQualifier
    import contracts.c05_setters  # noqa: F401  (inlined helpers: _decay, _needs_array_elem_assignment, is_primitive, the intrinsic classes)
    from contracts.c05_format_cast import Built

    PROPS = ("C05", "C03")
    TQMOD = "cohdl._core._type_qualifier:"
    ARR = Array[Unsigned[4], 3]
    ARR_SRC = "cohdl.Array[cohdl.Unsigned[4], 3]"

    def target(qcls, default=True):
        def make(env):
            stored = SObj(ARR, f_tag="placeholder value of the target", _value=None)
            o = SObj(qcls, _value=stored, _ref_spec=[], _attributes=[], _Wrapped=ARR, _name="tgt", _default=("default" if default else None))
            o.fields["_root"] = o
            return o

        return Built([], make, lambda asg: f"cohdl.{qcls.__name__}[{ARR_SRC}]([1, 2, 3])", lambda asg: None)

    def array_source():
        def make(env):
            o = SObj(Signal, _value=SObj(ARR, f_tag="placeholder value of the source", _value=None), _ref_spec=[], _attributes=[], _Wrapped=ARR, _name="src", _default=None)
            o.fields["_root"] = o
            return o

        return Built([], make, lambda asg: f"cohdl.Signal[{ARR_SRC}]([4, 5, 6])", lambda asg: None)

    SOURCES = {
        "Null": Const(Null, "cohdl.Null"), "Full": Const(Full, "cohdl.Full"),
        "list": Built([], lambda env: [7, 8, 9], lambda asg: "[7, 8, 9]", lambda asg: None),
        "tuple": Built([], lambda env: (7, 8, 9), lambda asg: "(7, 8, 9)", lambda asg: None),
        "array": array_source(),
    }

    def elementwise_model(it, self, src, assignment_fn):
        return SObj(_IntrinsicSynthesizableFunctionCall, f_elementwise=True, f_target=self, f_source=src, f_fn=assignment_fn)

    MODELS = [
        (TypeQualifier.__dict__["_perform_array_elem_assignment"], elementwise_model),
        (Array.__dict__["_assign"], lambda it, self, value: None),  # a pure check (contract in c13_array)
        (Array.__dict__["copy"], lambda it, self: SObj(ARR, f_tag="copy of a placeholder", f_copy_of=self, _value=None)),
    ]

    def setter_spec(mode, is_array):
        def spec(sx, target, value):
            def holds(res):
                if not isinstance(res, SObj):
                    return False
                f = res.fields
                if is_array:
                    return bool(res.kind is _IntrinsicAssignment and f.get("target") is sx.real_args[0] and f.get("source") is sx.real_args[1] and f.get("mode") is mode)
                return bool(res.kind is _IntrinsicSynthesizableFunctionCall and f.get("f_elementwise") and f.get("f_target") is sx.real_args[0] and f.get("f_source") is sx.real_args[1]
                            and isinstance(f.get("f_fn"), Closure))

            def native(res):
                return type(res) is (_IntrinsicAssignment if is_array else _IntrinsicSynthesizableFunctionCall)

            return C.Pred(holds, "element-wise assignment of the source" if not is_array else f"_IntrinsicAssignment(target, source array, {mode})", native=native)

        return spec

    for qual, qcls, mode in (("Signal._next_setter_replacement", Signal, AssignMode.NEXT), ("Signal._push_setter_replacement", Signal, AssignMode.PUSH),
                             ("Variable._value_setter_replacement", Variable, AssignMode.VALUE)):
        con = contract(TQMOD + qual, PROPS)
        for sname, shp in SOURCES.items():
            c = Case(f"Array<-{sname}", [target(qcls), shp], setter_spec(mode, sname == "array"))
            c.models = MODELS
            c.native = False  # the placeholder objects are symbolic stand-ins; the native side is array_assign_sweep
            con.cases.append(c)

    # -- _perform_array_elem_assignment
    def perform_spec(accepted, with_arg):
        def spec(sx, self, src, assignment_fn):
            if not accepted:
                sx.reject()

            def holds(res):
                if not (isinstance(res, SObj) and res.kind is _IntrinsicSynthesizableFunctionCall):
                    return False
                f = res.fields
                args = f.get("args")
                return bool(isinstance(f.get("callable"), Closure) and isinstance(args, list) and (args == [] if not with_arg else (len(args) == 1 and args[0] is sx.real_args[1])) and f.get("kwargs") == {})

            return C.Pred(holds, "call of the element loop with the source", native=lambda res: type(res) is _IntrinsicSynthesizableFunctionCall)

        return spec

    con = contract(TQMOD + "TypeQualifier._perform_array_elem_assignment", PROPS)
    fn = Built([], lambda env: (lambda a, b: None), lambda asg: "(lambda a, b: None)", lambda asg: None)
    for name, shp, accepted, with_arg in (
        ("Null", SOURCES["Null"], True, False), ("Full", SOURCES["Full"], True, False), ("list", SOURCES["list"], True, True), ("tuple", SOURCES["tuple"], True, True),
        ("short-list", Built([], lambda env: [7, 8], lambda asg: "[7, 8]", lambda asg: None), False, True),
        ("long-tuple", Built([], lambda env: (7, 8, 9, 10), lambda asg: "(7, 8, 9, 10)", lambda asg: None), False, True),
        ("integer", Built([], lambda env: 5, lambda asg: "5", lambda asg: None), False, True),
    ):
        c = Case(f"Array<-{name}", [target(Signal), shp, fn], perform_spec(accepted, with_arg))
        c.models = [(TypeQualifier.__dict__["__len__"], lambda it, self: 3)]
        c.native = False
        con.cases.append(c)


_register()


def replay_array_assign(payload):
    r = array_assign_sweep()
    hit = [v for v in r.get("violations", []) if v["key"] == payload["key"]]
    return {"reproduced": bool(hit), "detail": hit[0]["solver"]["what"] if hit else "every element holds the assigned value"}
