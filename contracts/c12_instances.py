"""C12: wiring and ordering of entity instances, proved from the real source.

(a) vhdl.EntityInst._port_map / _generic_map: every formal of the instantiated entity appears exactly
    once, in declaration order, associated with the text of THE actual given for that formal
    (the actuals dictionary may be in any order); separators make it one association list.
(b) vhdl.Library.from_top_entity (nested recursive collect_subenties): over instantiation DAGs every
    entity is listed exactly once (a template shared by several instances is emitted once), every
    sub-entity precedes every entity that instantiates it, the top entity is last.
(c) VhdlAssembler.apply on an entity template: a template already converted is returned from the cache
    (one emission per template); otherwise every declared port is declared in the entity scope under
    its declared name, in order; every OUTPUT port gets one buffer signal -- initialised with the
    port's default whenever the port HAS a default (also an all-zero / false one) -- one assignment
    port <= buffer and an alias port -> buffer; the converted template is registered in the cache.
(d) cohdl.Entity.__init__ (connection part): every formal port is associated with exactly the actual
    passed for it; unknown names and missing actuals are rejected; the default of an actual driven by an
    instance output is removed from THAT object only (not from its root).
"""

from __future__ import annotations

import itertools

from cohdl import Port, Signal
from cohdl._core import _context as CTX
from cohdl._core._ir import _repr as ir
from cohdl._compiler.backend.vhdl import _vhdl_repr as VR
from cohdl._compiler.backend.vhdl import _vhdl_assembler as VA
from cohdl._compiler.backend.vhdl._vhdl_repr import VhdlScope
from cohdl._core._type_qualifier import TypeQualifier
from cohdl.utility.id_map import IdSet

from pyvc import contracts as C
from pyvc import interp as I
from pyvc import sym
from pyvc.contracts import Case, contract
from pyvc.values import SObj, SCls, Opaque
from contracts.c05_format_cast import Built
from contracts.c04_reset import gset, _GSet

PROPS = ("C12",)

I.register_inline(VR.Entity.__dict__["ports"])
I.register_inline(VR.Entity.__dict__["sub_entities"])


# ---- (a) port map / generic map -------------------------------------------------------------------------------------
def inst_shape(k, perm, what):
    def make(env):
        formals = {f"f{i}": Opaque(f"decl{i}") for i in range(k)}
        actuals = {f"f{i}": SObj(Signal, f_tag=f"actual{i}") for i in perm}
        ent = SObj(VR.Entity, _ports=formals if what == "port" else {}, _generics=formals if what == "generic" else {})
        return SObj(VR.EntityInst, _entity=ent, _ports=actuals if what == "port" else {}, _generics=actuals if what == "generic" else {}, _scope=SObj(VhdlScope))

    return Built([], make, lambda a: "<instance>", lambda a: None)


def map_spec(k, what):
    def spec(sx, self):
        if k == 0:
            return []
        head = "port map(" if what == "port" else "generic map("
        lines = [f"f{i} => <text of actual{i}>" + ("," if i < k - 1 else "") for i in range(k)]
        return [head] + lines + [");"]

    return spec


FMT_MODELS = [
    (VhdlScope.__dict__["format_target"], lambda it, self, obj: f"<text of {obj.fields['f_tag']}>"),
    (VhdlScope.__dict__["format_value"], lambda it, self, obj, *a, **k: f"<text of {obj.fields['f_tag']}>"),
]

for what, fname in (("port", "_port_map"), ("generic", "_generic_map")):
    con = contract(f"cohdl._compiler.backend.vhdl._vhdl_repr:EntityInst.{fname}", PROPS)
    for k in range(0, 4):
        for perm in itertools.permutations(range(k)):
            c = Case(f"{k}-formals,actuals-in-order-{''.join(map(str, perm)) or '-'}", [inst_shape(k, perm, what)], map_spec(k, what))
            c.native = False
            c.models = FMT_MODELS
            con.cases.append(c)


# ---- (b) library order ---------------------------------------------------------------------------------------------------
# instantiation DAGs: entity index -> list of instantiated entity indices (one entry per INSTANCE); 0 is the top
DAGS = {
    "single": {0: []},
    "chain": {0: [1], 1: [2], 2: []},
    "fan-out": {0: [1, 2], 1: [], 2: []},
    "same-template-twice": {0: [1, 1], 1: []},
    "diamond": {0: [1, 2], 1: [3], 2: [3], 3: []},
    "shared-deep": {0: [1, 2], 1: [2], 2: [3], 3: []},
    "sub-after-user": {0: [2, 1], 1: [], 2: [1]},
    "sub-before-user": {0: [1, 2], 1: [], 2: [1]},
    "shared-leaf-three-levels": {0: [3, 1], 1: [2], 2: [3], 3: []},
}


DAG_NAMES = {
    # two DIFFERENT entities (classes) with one name: both would be emitted as `entity Leaf` -- VHDL names are not case sensitive
    "same-name-different-entities": {1: "Leaf", 2: "Leaf"},
    "same-name-different-case": {1: "Leaf", 2: "LEAF"},
}
_prev_entity_name = I.MODELS.get(id(VR.Entity.__dict__["name"]))  # another module (c06_names) may model Entity.name for ITS shapes


def _entity_name(it, self):
    if "f_name" in self.fields or _prev_entity_name is None:
        return self.fields["f_name"]
    return _prev_entity_name(it, self)


I.register_model(VR.Entity.__dict__["name"], _entity_name)


def dag_shape(dag, names=None):
    def make(env):
        ents = {i: SObj(VR.Entity, f_idx=i, f_name=(names or {}).get(i, f"E{i}")) for i in dag}
        for i, subs in dag.items():
            ents[i].fields["_sub_entities"] = [SObj(VR.EntityInst, _entity=ents[j]) for j in subs]
        return ents[0]

    return Built([], make, lambda a: "<top>", lambda a: None)


def lib_spec(dag):
    def spec(sx, top):
        def holds(res):
            if not (isinstance(res, SObj) and res.kind is VR.Library and res.fields.get("f_top") is sx.real_args[0]):
                return False
            order = [e.fields["f_idx"] for e in res.fields["f_entities"]]
            if sorted(order) != sorted(dag) or len(set(order)) != len(order):
                return False  # every entity exactly once
            pos = {e: i for i, e in enumerate(order)}
            if any(pos[s] >= pos[u] for u, subs in dag.items() for s in subs):
                return False  # sub-entities first
            return order[-1] == 0

        return C.Pred(holds, "each entity once, sub-entities before their users, top last")

    return spec


def lib_reject_spec(sx, top):
    raise C.SpecRaise(AssertionError)


con = contract("cohdl._compiler.backend.vhdl._vhdl_repr:Library.from_top_entity", PROPS + ("C06",))
for name, dag in list(DAGS.items()) + [(n, DAGS["fan-out"]) for n in DAG_NAMES]:
    c = Case(name, [dag_shape(dag, DAG_NAMES.get(name))], lib_reject_spec if name in DAG_NAMES else lib_spec(dag))
    c.native = False
    c.models = [(VR.Entity.__dict__["name"], lambda it, self: self.fields["f_name"])]  # case-level: other modules model Entity.name differently
    if name in DAG_NAMES:
        c.custom_replay = "contracts.c06_ports.replay_entity_names"
    c.interp_flags = {"class_call_models": {
        IdSet: lambda it, args, kwargs: gset(),
        VR.Library: lambda it, args, kwargs: SObj(VR.Library, f_top=args[0], f_entities=list(args[1])),
        VhdlScope: lambda it, args, kwargs: SObj(VhdlScope),
    }}
    con.cases.append(c)


# ---- (c) template conversion -------------------------------------------------------------------------------------------------
class _Scope:
    """any vhdl scope: declare / set_alias / reserve_name / complete_setup are recorded"""


for _n in ("declare", "set_alias", "reserve_name", "complete_setup"):
    setattr(_Scope, _n, (lambda n: lambda self, *a, **k: None)(_n))


def _rec(name):
    def model(it, self, *a, **k):
        it.log.append((name, self.fields["f_kind"], a, k))

    return model


for _n in ("declare", "set_alias", "reserve_name", "complete_setup"):
    I.register_model(getattr(_Scope, _n), _rec(_n))


class _PortDecl:
    """declared port of the template"""


for _n in ("direction", "has_default", "default", "name"):
    setattr(_PortDecl, _n, (lambda n: lambda self: None)(_n))
    I.register_model(getattr(_PortDecl, _n), (lambda n: lambda it, self: self.fields["f_" + n])(_n))


def _scope_ctor(kind):
    return lambda it, args, kwargs: SObj(_Scope, f_kind=kind, f_args=list(args), f_kwargs=dict(kwargs))


def _node(cls, names):
    def f(it, args, kwargs):
        o = SObj(cls)
        for n, a in zip(names, args):
            o.fields[n] = a
        o.fields.update(kwargs)
        return o

    return f


def _signal_subscript(it, cls, key):
    return SCls(Signal, wrapped=key)


def _signal_ctor(it, cls, *args, **kw):
    return SObj(cls if isinstance(cls, SCls) else SCls(Signal, wrapped=None), f_init=list(args), f_kw=dict(kw))


ASM_CLASS_MODELS = {
    VR.ModuleScope: _scope_ctor("module"), VR.EntityScope: _scope_ctor("entity"), VR.ArchScope: _scope_ctor("arch"), VR.AliasScope: _scope_ctor("alias"),
    VR.SignalAssignment: _node(VR.SignalAssignment, ["_target", "_source"]), VR.Target: _node(VR.Target, ["result"]), VR.Value: _node(VR.Value, ["result"]),
    VR.Concurrent: _node(VR.Concurrent, ["f_scope", "f_stmts", "f_name", "f_attr"]),
    VR.Entity: _node(VR.Entity, ["f_info", "f_scope", "f_blocks"]), VR.Architecture: _node(VR.Architecture, ["f_scope", "f_entity", "f_blocks"]),
    VR.Block: _node(VR.Block, ["f_scope", "f_content"]),
}

DIRS = {"in": Port.Direction.INPUT, "out": Port.Direction.OUTPUT, "inout": Port.Direction.INOUT}
# (direction, has default, the default value) -- the default may be falsy
PORT_KINDS = [("in", False, None), ("out", False, None), ("out", True, "DEFAULT"), ("out", True, 0), ("out", True, False), ("inout", False, None)]


def template_shape(ports, known):
    def make(env):
        decls = {}
        for i, (d, has, dv) in enumerate(ports):
            nm = f"port{i}" + ("_" if i == 1 else "")
            decls[nm] = SObj(_PortDecl, f_direction=DIRS[d], f_has_default=has, f_default=dv, f_name=nm, type=Opaque(f"type{i}"), f_idx=i)
        # children: one sub-block and one concurrent context -- they must be converted inside the ALIAS scope
        # (where an output port stands for its buffer), not the architecture scope (C07: one driver per port)
        sub = SObj(ir.Block, f_subblocks=[], f_contexts=[], _attributes={}, f_name="blk")
        cctx = SObj(ir.Concurrent, f_code=SObj(_IrCode), attributes={}, f_name="ctx")
        return SObj(ir.EntityTemplate, f_ports=decls, _attributes={}, f_known=known, f_subblocks=[sub], f_contexts=[cctx])

    return Built([], make, lambda a: "<template>", lambda a: None)


class _IrCode:
    """code block of a context: nothing inside"""


_IrCode.visit_referenced_objects = lambda self, op: None
_IrCode.content = lambda self: []
I.register_model(_IrCode.visit_referenced_objects, lambda it, self, op: None)
I.register_model(_IrCode.content, lambda it, self: [])


def asm_spec(ports, known):
    def spec(sx, self, inp, **kwargs):
        it = sx.it
        real_inp = sx.real_args[1]

        def holds(res):
            if known:
                return res is it.cached and it.log == [] and it.added == []
            if not (isinstance(res, SObj) and res.kind is VR.Entity):
                return False
            if len(it.added) != 1 or it.added[0][0] is not real_inp or it.added[0][1] is not res:
                return False  # registered in the cache: later instances share it
            decl = [(a, k) for n, kind, a, k in it.log if n == "declare" and kind == "entity"]
            pd = list(real_inp.fields["f_ports"].items())
            if len(decl) < len(pd):
                return False
            for (nm, p), (a, k) in zip(pd, decl):
                if a[0] is not p or k.get("name_hint") != nm:
                    return False  # every declared port, in order, under its declared name
            outs = [p for nm, p in pd if p.fields["f_direction"] is Port.Direction.OUTPUT]
            bufs = [a[0] for n, kind, a, k in it.log if n == "declare" and kind == "arch"]
            alias = [a for n, kind, a, k in it.log if n == "set_alias"]
            if len(bufs) != len(outs) or len(alias) != len(outs):
                return False
            assigns = res.fields["f_blocks"][0].fields["f_stmts"]
            if len(assigns) != len(outs):
                return False
            for p, b, al, asg in zip(outs, bufs, alias, assigns):
                if al[0] is not p or al[1] is not b:
                    return False
                if asg.fields["_target"].fields["result"] is not p or asg.fields["_source"].fields["result"] is not b:
                    return False
                want_init = [p.fields["f_default"]] if p.fields["f_has_default"] else []
                if b.fields["f_init"] != want_init:
                    return False  # the buffer starts with the port's default whenever the port HAS one
                nm = p.fields["f_name"]
                if b.fields["f_kw"].get("name") != (f"buffer{nm}" if nm.endswith("_") else f"buffer_{nm}").strip("_"):
                    return False
            # the children live in the alias scope: the scope in which an output port is replaced by its buffer
            blocks = res.fields["f_blocks"]
            if len(blocks) != 3:
                return False
            alias_scope = res.fields["f_scope"]
            if not (isinstance(alias_scope, SObj) and alias_scope.fields.get("f_kind") == "alias"):
                return False
            sub, cctx = blocks[1], blocks[2]
            if not (isinstance(sub, SObj) and sub.kind is VR.Block and sub.fields["f_scope"] is alias_scope):
                return False
            if not (isinstance(cctx, SObj) and cctx.kind is VR.Concurrent and cctx.fields["f_scope"] is alias_scope):
                return False
            return True

        return C.Pred(holds, "ports declared in order; one buffer per output with the port's default; cached")

    return spec


con = contract("cohdl._compiler.backend.vhdl._vhdl_assembler:VhdlAssembler.apply", PROPS + ("C07",))
for n in range(0, 3):
    for ports in itertools.product(PORT_KINDS, repeat=n):
        for known in ((False, True) if n == 1 and ports[0][0] == "out" and ports[0][1] is False else (False,)):
            SELF = Built([], lambda env: SObj(VA.VhdlAssembler, _additional_reserved_names=None), lambda a: "<asm>", lambda a: None)
            name = f"template:[{';'.join(f'{d}/{dv!r}' if has else d for d, has, dv in ports)}]" + (",cached" if known else "")
            c = Case(name, [SELF, template_shape(ports, known)], asm_spec(ports, known))
            c.native = False
            c.props = ("C12", "C07")  # other modules add cases for this function under C06: these shapes belong to C12 / C07 only
            c.models = [
                (ir.EntityTemplate.__dict__["port_declarations"], lambda it, self: self.fields["f_ports"]),
                (ir.EntityTemplate.__dict__["generic_declarations"], lambda it, self: {}),
                (ir.Block.__dict__["subblocks"], lambda it, self: self.fields.get("f_subblocks", [])),
                (ir.Block.__dict__["contexts"], lambda it, self: self.fields.get("f_contexts", [])),
                (ir.Block.__dict__["name"], lambda it, self: self.fields.get("f_name")),
                (ir.Context.__dict__["name"], lambda it, self: self.fields.get("f_name")),
                (ir.Context.__dict__["code"], lambda it, self: self.fields["f_code"]),
                (ir.EntityTemplate.__dict__["info"], lambda it, self: "INFO"),
                (VA.VhdlAssembler.__dict__["_get_known_templates"], lambda it, self: it.known),
                (VA.VhdlAssembler.__dict__["_add_template"], lambda it, self, inp, ret: it.added.append((inp, ret))),
            ]
            c.interp_flags = {"class_call_models": ASM_CLASS_MODELS}

            def setup(it, ctx, args, env, known=known):
                it.log, it.added = [], []
                it.cached = SObj(VR.Entity, f_tag="cached")
                it.known = {args[1]: it.cached} if known else {}

            c.setup = setup
            con.cases.append(c)

# case-level (interp_flags of the template cases above): the models of qualified types other contract modules register globally
# (c13_types: the lattice; c04_misc: reset signals) stay in force for THEIR contracts
for _c in con.cases:
    _c.interp_flags = {**getattr(_c, "interp_flags", {}), "subscript_models": {TypeQualifier: _signal_subscript}, "ctor_models": {TypeQualifier: _signal_ctor}}
I.SUBSCRIPT_MODELS.setdefault(TypeQualifier, _signal_subscript)
I.CTOR_MODELS.setdefault(TypeQualifier, _signal_ctor)


# ---- (d) Entity.__init__: association of formals and actuals -----------------------------------------------------------
class _Formal:
    """declared port (entry of info.ports)"""


_Formal.is_output = lambda self: None
_Formal.__ilshift__ = lambda self, v: None
I.register_model(_Formal.is_output, lambda it, self: self.fields["f_out"])
_Formal.is_input = lambda self: None
I.register_model(_Formal.is_input, lambda it, self: self.fields.get("f_in", not self.fields["f_out"]))


def _formal_assign(it, self, value):
    # an assignment TO THE DECLARED PORT OBJECT (the old trial `info.ports[name] <<= value`): it changes an object that
    # belongs to the entity class and is shared by every instance and every later compilation
    it.formal_writes.append(self.fields["f_name"])
    if isinstance(value, SObj) and value.fields.get("f_incompatible"):
        it.raise_(AssertionError, "incompatible")
    return self


I.register_model(_Formal.__ilshift__, _formal_assign)
C.inline("cohdl._core._type_qualifier:TypeQualifierBase.decay")
C.inline("cohdl._core._enum:Enum._assign")


class _FormalCopy:
    """a copy of the placeholder value of a declared port: the trial assignment happens on it"""


_Formal.copy = lambda self: None
_FormalCopy._assign = lambda self, v: None
def _formal_copy(it, self):
    # summary of TypeQualifier.copy (`Temporary(self)`): a new qualified object whose value is a COPY of the port's placeholder
    # when the value type is copyable (all primitives) and the value itself for immutable values (enumeration members)
    cp = SObj(_FormalCopy, f_of=self)
    if "f_decayed" in self.fields:
        t = self.fields.get("f_type")
        cp.fields["f_decayed"] = _vec(t[0], t[1], 0) if t is not None else self.fields["f_decayed"]
    return cp


I.register_model(_Formal.copy, _formal_copy)


def _copy_assign(it, self, value):
    if isinstance(value, SObj) and value.fields.get("f_incompatible"):
        it.raise_(AssertionError, "incompatible")
    return None


I.register_model(_FormalCopy._assign, _copy_assign)


class _Info:
    """EntityInfo stand-in"""


def actual(tag, view_of=None, incompatible=False, width=4):
    o = SObj(Signal, f_tag=tag, _default="DEFAULT-" + tag, _ref_spec=[] if view_of is None else ["slice"], f_incompatible=incompatible)
    o.fields["_value"] = SObj(_FormalCopy, f_tag="value of " + tag, f_incompatible=incompatible)  # what decay() hands to the trial assignment
    o.fields["width"] = width  # vector-typed object; scalar objects (Bit, bool, enum) have no width (None stands for the AttributeError)
    o.fields["_root"] = view_of if view_of is not None else o
    return o


# scenarios: formals = [(name, is output)], call = {name: how}; how: 'sig' | 'view' (slice of a defaulted root) |
# 'decl' (the declared port object itself) | 'bad' (incompatible) ; extra keyword / missing formal variants
SCENARIOS = {
    "in+out": ([("a", False), ("y", True)], {"a": "sig", "y": "sig"}),
    "reversed-keywords": ([("a", False), ("y", True)], {"y": "sig", "a": "sig"}),
    "output-through-slice": ([("y", True)], {"y": "view"}),
    "input-through-slice": ([("a", False)], {"a": "view"}),
    "output-is-declaration": ([("y", True)], {"y": "decl"}),
    "two-outputs": ([("y", True), ("z", True)], {"z": "sig", "y": "sig"}),
    "missing-input": ([("a", False), ("y", True)], {"y": "sig"}),
    "missing-output": ([("a", False), ("y", True)], {"a": "sig"}),
    "unknown-name": ([("a", False)], {"a": "sig", "b": "sig"}),
    "incompatible-actual": ([("a", False)], {"a": "bad"}),
    # a port association needs vectors of the SAME width: an actual that an assignment would merely extend
    # (Unsigned[3] into Unsigned[4]) is not a legal actual
    "narrower-vector-actual": ([("a", False), ("y", True)], {"a": "narrow", "y": "sig"}),
    "narrower-vector-actual-on-output": ([("a", False), ("y", True)], {"a": "sig", "y": "narrow"}),
    "scalar-ports": ([("a", False), ("y", True)], {"a": "scalar", "y": "scalar"}),
    # an INOUT port needs a definition like an input and does not take the default away from the connected object (C04: that
    # object is still reset by the context that drives it, and keeps its power-up value)
    "inout-port": ([("a", False), ("io", "inout")], {"a": "sig", "io": "sig"}),
    "inout-port-missing": ([("a", False), ("io", "inout")], {"a": "sig"}),
}


def entity_shape(formals, call):
    def make(env):
        ports = {n: SObj(_Formal, f_name=n, f_out=o is True, f_in=o is False, _default="DECL-DEFAULT") for n, o in formals}  # o: False = input, True = output, "inout"
        for n, p in ports.items():
            p.fields["width"] = None if call.get(n) == "scalar" else 4
        info = SObj(_Info, name="ent", attributes={}, extern=True, instantiated=None, ports=ports, generics={}, architecture=None)
        return SObj(CTX.Entity, _cohdl_info=info)

    return Built([], make, lambda a: "<entity>", lambda a: None)


def kw_shapes(formals, call):
    out = {}
    for n, how in call.items():
        def mk(env, n=n, how=how):
            if how == "view":
                root = actual(n + "-root")
                return actual(n + "-view", view_of=root)
            if how == "bad":
                return actual(n, incompatible=True)
            if how == "narrow":
                return actual(n, width=3)
            if how == "scalar":
                return actual(n, width=None)
            return actual(n)

        out[n] = Built([], mk, lambda a: "<actual>", lambda a: None)
    return out


def init_spec(formals, call):
    def spec(sx, self, **kwargs):
        names = [n for n, _ in formals]
        if any(k not in names for k in call) or any(n not in call for n in names) or "bad" in call.values() or "narrow" in call.values():
            sx.reject(AssertionError)
        real_self = sx.real_args[0]
        real_kw = sx.real_kwargs

        def holds(res):
            defs = real_self.fields.get("_cohdl_port_definitions")
            if not isinstance(defs, dict) or set(defs) != set(names):
                return False
            if sx.it.formal_writes:
                return False  # frame: the declared port objects (class state) are not assigned to (C11: the value would be seen by later compilations)
            for n, is_out in formals:
                a = real_kw[n]
                if defs[n] is not a or real_self.fields.get(n) is not a:
                    return False  # exactly the actual passed for this formal
                root = a.fields["_root"]
                if is_out is True:  # (an inout port shares a resolved bus with the other drivers: the connected object keeps its default)
                    if a.fields["_default"] is not None:
                        return False  # an instance output drives it: no default on the driven object
                    if root is not a and root.fields["_default"] is None:
                        return False  # ... but the rest of a sliced root keeps its initial value
                else:
                    if a.fields["_default"] is None or root.fields["_default"] is None:
                        return False  # actuals of inputs keep their default
            return True

        return C.Pred(holds, "formal -> its own actual; defaults removed only from driven objects")

    return spec


con = contract("cohdl._core._context:Entity.__init__", PROPS)
for name, (formals, call) in SCENARIOS.items():
    if "decl" in call.values():
        continue  # passing the declaration object itself needs the object of info.ports: covered by the design-level checks of C06
    c = Case(f"connect:{name}", [entity_shape(formals, call)], init_spec(formals, call), kwargs=kw_shapes(formals, call))
    c.native = False
    if "narrow" in call.values():
        c.custom_replay = "contracts.c12_instances.replay_narrow_actual"
    c.may_reject = AssertionError
    c.models = [
        (CTX.Block.__dict__["__init__"], lambda it, self, *a, **k: None),
        (CTX._register_block, lambda it, blk: None),
    ]

    def _init_setup(it, ctx, args, env):
        it.formal_writes = []

    c.setup = _init_setup
    con.cases.append(c)


contract("cohdl._core._context:Entity.__init__", ("C05", "C06", "C13"))  # "port connection" of C05; well-typed port associations of C06; "views keep the same root" of C13 (the declared type of the ROOT decides)
# the VHDL TYPE of an actual: a port map names the connected object (plus a slice / index), it contains no conversion.  The type
# of that text is the DECLARED type of the root object (a slice of an unsigned signal is unsigned, whatever view the Python
# object is), so for vector ports the root's vector type must be the port's: `b => u` with b : std_logic_vector and
# u : unsigned is not legal VHDL although `b <<= u` is a legal assignment.  The placeholder values are the vectors of the core
# model; the trial assignment is judged by the C05 contract of `_assign` (conversion matrix), used here as a summary.
from cohdl import Unsigned as _U, Signed as _S, BitVector as _BV  # noqa: E402
from contracts.core_models import vec as _vec  # noqa: E402
from contracts import c05_convert as _C05  # noqa: E402,F401  (registers the _assign summaries)

TYPED = {
    # name: (port type, actual's own type, root's declared type, accepted?)   type = (kind, width)
    "unsigned<-unsigned-signal": ((_U, 4), (_U, 4), (_U, 4), True),
    "bitvector<-unsigned-signal": ((_BV, 4), (_U, 4), (_U, 4), False),
    "unsigned<-bitvector-signal": ((_U, 4), (_BV, 4), (_BV, 4), False),
    "unsigned<-unsigned-view-of-bitvector-signal": ((_U, 4), (_U, 4), (_BV, 4), False),
    "bitvector<-slice-of-unsigned-signal": ((_BV, 4), (_BV, 4), (_U, 8), False),
    "unsigned<-unsigned-view-of-slice-of-unsigned-signal": ((_U, 4), (_U, 4), (_U, 8), True),
    "bitvector<-slice-of-bitvector-signal": ((_BV, 4), (_BV, 4), (_BV, 8), True),
    "signed<-signed-view-of-slice-of-signed-signal": ((_S, 4), (_S, 4), (_S, 8), True),
    "signed<-unsigned-signal": ((_S, 4), (_U, 4), (_U, 4), False),
}


def typed_shapes(port_t, actual_t, root_t):
    def make_entity(env):
        formal = SObj(_Formal, f_name="a", f_out=False, _default="DECL-DEFAULT", f_decayed=_vec(port_t[0], port_t[1], 0), f_type=port_t)
        formal.fields["width"] = port_t[1]
        info = SObj(_Info, name="ent", attributes={}, extern=True, instantiated=None, ports={"a": formal}, generics={}, architecture=None)
        return SObj(CTX.Entity, _cohdl_info=info)

    def make_actual(env):
        root = SObj(Signal, f_tag="root", _default="DEFAULT-root", _ref_spec=[], f_decayed=_vec(root_t[0], root_t[1], 0))
        root.fields["_root"] = root
        root.fields["width"] = root_t[1]
        if actual_t == root_t:
            return root
        view = SObj(Signal, f_tag="view", _default="DEFAULT-view", _ref_spec=["<slice / cast>"], f_decayed=_vec(actual_t[0], actual_t[1], 0), _root=root)
        view.fields["width"] = actual_t[1]
        return view

    return [Built([], make_entity, lambda a: "<entity>", lambda a: None)], {"a": Built([], make_actual, lambda a: "<actual>", lambda a: None)}


def typed_spec(accepted):
    def spec(sx, self, **kwargs):
        if not accepted:
            sx.reject(AssertionError)
        real_self, real_kw = sx.real_args[0], sx.real_kwargs
        return C.Pred(lambda res: real_self.fields.get("_cohdl_port_definitions") == {"a": real_kw["a"]} and not sx.it.formal_writes, "accepted: the formal is associated with the actual")

    return spec


def _decay_model(it, val):
    if isinstance(val, SObj) and "f_decayed" in val.fields:
        return val.fields["f_decayed"]
    return val


from cohdl._core._type_qualifier import TypeQualifierBase as _TQB  # noqa: E402

for name, (port_t, actual_t, root_t, accepted) in TYPED.items():
    shapes, kw = typed_shapes(port_t, actual_t, root_t)
    c = Case(f"connect-type:{name}", shapes, typed_spec(accepted), kwargs=kw)
    c.native = False
    c.may_reject = AssertionError
    c.models = [
        (CTX.Block.__dict__["__init__"], lambda it, self, *a, **k: None),
        (CTX._register_block, lambda it, blk: None),
        (_TQB.__dict__["decay"], _decay_model),
    ]
    c.setup = _init_setup
    c.custom_replay = "contracts.c12_instances.replay_actual_type"
    con.cases.append(c)


# ports of an enumeration type: the placeholder is a member of the enumeration (immutable, no `copy` method); the trial
# assignment must still accept an actual of the same enumeration and reject one of another enumeration
import cohdl as _cohdl  # noqa: E402


class _StateA(_cohdl.enum.Enum):
    P = 0
    Q = 1


class _StateB(_cohdl.enum.Enum):
    P = 0
    Q = 1


def enum_shapes(actual_member):
    def make_entity(env):
        formal = SObj(_Formal, f_name="a", f_out=False, _default="DECL-DEFAULT", f_decayed=_StateA.P)
        formal.fields["width"] = None
        info = SObj(_Info, name="ent", attributes={}, extern=True, instantiated=None, ports={"a": formal}, generics={}, architecture=None)
        return SObj(CTX.Entity, _cohdl_info=info)

    def make_actual(env):
        root = SObj(Signal, f_tag="root", _default="DEFAULT-root", _ref_spec=[], f_decayed=actual_member)
        root.fields["_root"] = root
        root.fields["width"] = None
        return root

    return [Built([], make_entity, lambda a: "<entity>", lambda a: None)], {"a": Built([], make_actual, lambda a: "<actual>", lambda a: None)}


for name, member, accepted in (("enum<-signal-of-the-same-enum", _StateA.Q, True), ("enum<-signal-of-another-enum", _StateB.Q, False)):
    shapes, kw = enum_shapes(member)
    c = Case(f"connect-type:{name}", shapes, typed_spec(accepted), kwargs=kw)
    c.native = False
    if not accepted:
        c.may_reject = AssertionError
    c.models = [
        (CTX.Block.__dict__["__init__"], lambda it, self, *a, **k: None),
        (CTX._register_block, lambda it, blk: None),
        (_TQB.__dict__["decay"], _decay_model),
    ]
    c.setup = _init_setup
    c.custom_replay = "contracts.c12_instances.replay_enum_port"
    con.cases.append(c)


# scalar ports: a Bit is a std_logic, a bool a boolean, an int an integer -- `a => x` between two of them is ill-typed although the
# ASSIGNMENT converts (cohdl_bool_to_std_logic ...); an element of a vector signal is a Bit (`v(3)` is a std_logic)
from cohdl import Bit as _BitT  # noqa: E402
from cohdl._core._boolean import _Boolean as _BoolT  # noqa: E402


def _scalar(kind):
    return SObj(_BitT, _val=None) if kind == "bit" else SObj(_BoolT, _value=None)


def scalar_shapes(port_kind, actual_kind, element_of_vector):
    def make_entity(env):
        formal = SObj(_Formal, f_name="a", f_out=False, _default="DECL-DEFAULT", f_decayed=_scalar(port_kind))
        formal.fields["width"] = None
        info = SObj(_Info, name="ent", attributes={}, extern=True, instantiated=None, ports={"a": formal}, generics={}, architecture=None)
        return SObj(CTX.Entity, _cohdl_info=info)

    def make_actual(env):
        if element_of_vector:
            root = SObj(Signal, f_tag="root", _default="DEFAULT-root", _ref_spec=[], f_decayed=_vec(_BV, 4, 0))
            root.fields["_root"] = root
            root.fields["width"] = 4
            view = SObj(Signal, f_tag="element", _default="DEFAULT-view", _ref_spec=["<index>"], f_decayed=_scalar(actual_kind), _root=root)
            view.fields["width"] = None
            return view
        root = SObj(Signal, f_tag="root", _default="DEFAULT-root", _ref_spec=[], f_decayed=_scalar(actual_kind))
        root.fields["_root"] = root
        root.fields["width"] = None
        return root

    return [Built([], make_entity, lambda a: "<entity>", lambda a: None)], {"a": Built([], make_actual, lambda a: "<actual>", lambda a: None)}


def _scalar_assign(it, self, value):
    return None  # the ASSIGNMENT between Bit and bool (either direction) is legal: the association is what is judged here


for name, pk, ak, elem, accepted in (("bit<-bit-signal", "bit", "bit", False, True), ("bool<-bool-signal", "bool", "bool", False, True), ("bit<-element-of-bitvector-signal", "bit", "bit", True, True),
                                    ("bool<-bit-signal", "bool", "bit", False, False), ("bit<-bool-signal", "bit", "bool", False, False), ("bool<-element-of-bitvector-signal", "bool", "bit", True, False)):
    shapes, kw = scalar_shapes(pk, ak, elem)
    c = Case(f"connect-type:{name}", shapes, typed_spec(accepted), kwargs=kw)
    c.native = False
    if not accepted:
        c.may_reject = AssertionError
    c.models = [
        (CTX.Block.__dict__["__init__"], lambda it, self, *a, **k: None),
        (CTX._register_block, lambda it, blk: None),
        (_TQB.__dict__["decay"], _decay_model),
        (_BitT.__dict__["_assign"], _scalar_assign),
        (_BoolT.__dict__["_assign"], _scalar_assign),
    ]
    c.setup = _init_setup
    c.custom_replay = "contracts.c12_instances.replay_scalar_port"
    con.cases.append(c)

_SCALAR_PORT_DESIGN = '''
from cohdl import Entity, Port, Bit, std
class Sub(Entity, extern=True):
    a = Port.input(bool)
class Top(Entity):
    x = Port.input(Bit)
    def architecture(self):
        Sub(a=self.x)
try:
    t = std.VhdlCompiler.to_string(Top)
    print("ACCEPTED", [l.strip() for l in t.splitlines() if "=> x" in l or "x :" in l])
except AssertionError:
    print("REJECTED")
'''


def replay_scalar_port(payload):
    from contracts.c06_extra import _run_design

    rc, out = _run_design(_SCALAR_PORT_DESIGN)
    return {"reproduced": "ACCEPTED" in out, "detail": "a std_logic signal connected to a boolean port (`a => x`): " + out[-120:]}


# the same trial in the front end (out.Entity.__init__, executed for every instance when its parent is converted)
from cohdl._compiler.frontend import _prepare_ast_out as _OUT  # noqa: E402


def out_entity_shapes(formal_value, formal_type, actual_value):
    def make_template(env):
        formal = SObj(_Formal, f_name="a", f_out=False, _default="DECL-DEFAULT", f_decayed=formal_value() if callable(formal_value) else formal_value)
        if formal_type is not None:
            formal.fields["f_type"] = formal_type
        info = SObj(_Info, name="ent", attributes={}, extern=True, ports={"a": formal}, generics={})
        return SObj(_OUT.EntityTemplate, _info=info)

    def make_defs(env):
        return {"a": SObj(Signal, f_tag="root", _default="DEFAULT-root", _ref_spec=[], f_decayed=actual_value() if callable(actual_value) else actual_value)}

    B = lambda mk, txt: Built([], mk, lambda a: txt, lambda a: None)
    return [B(lambda env: SObj(_OUT.Entity), "<instance>"), B(make_template, "<template>"), B(make_defs, "<port definitions>"), B(lambda env: {}, "{}")]


def out_entity_spec(accepted):
    def spec(sx, self, template, port_definitions, generic_definitions):
        if not accepted:
            sx.reject(AssertionError)
        rs, rt, rd = sx.real_args[0], sx.real_args[1], sx.real_args[2]
        return C.Pred(lambda res: rs.fields.get("_template") is rt and rs.fields.get("_port_definitions") is rd and not sx.it.formal_writes,
                      "accepted: template and actuals recorded, the declared port objects are not written")

    return spec


con_out = contract("cohdl._compiler.frontend._prepare_ast_out:Entity.__init__", PROPS + ("C11",))
for name, fv, ft, av, accepted in (
    ("enum<-signal-of-the-same-enum", _StateA.P, None, _StateA.Q, True),
    ("enum<-signal-of-another-enum", _StateA.P, None, _StateB.Q, False),
    ("unsigned<-unsigned-signal", lambda: _vec(_U, 4, 0), (_U, 4), lambda: _vec(_U, 4, 0), True),
    ("bitvector<-wider-bitvector-signal", lambda: _vec(_BV, 4, 0), (_BV, 4), lambda: _vec(_BV, 8, 0), False),
):
    c = Case(f"trial:{name}", out_entity_shapes(fv, ft, av), out_entity_spec(accepted))
    c.native = False
    if not accepted:
        c.may_reject = AssertionError
    c.models = [
        (_OUT.Block.__dict__["__init__"], lambda it, self, *a, **k: None),
        (_TQB.__dict__["decay"], _decay_model),
    ]
    c.setup = _init_setup
    c.custom_replay = "contracts.c12_instances.replay_enum_port"
    con_out.cases.append(c)


_ENUM_PORT_DESIGN = '''
import cohdl
from cohdl import Entity, Port, Bit, Signal, std
class State(cohdl.enum.Enum):
    A = 0
    B = 1
class Decode(Entity, extern=True):
    s = Port.input(State)
    y = Port.output(Bit)
class Top(Entity):
    x = Port.input(Bit)
    o = Port.output(Bit)
    def architecture(self):
        st = Signal[State](State.A, name="st")
        Decode(s=st, y=self.o)
        @std.concurrent
        def logic():
            st.next = State.B if self.x else State.A
try:
    t = std.VhdlCompiler.to_string(Top)
    print("ACCEPTED", [l.strip() for l in t.splitlines() if "=> st" in l])
except AssertionError as e:
    print("REJECTED", str(e)[:120])
'''


def replay_enum_port(payload):
    from contracts.c06_extra import _run_design

    rc, out = _run_design(_ENUM_PORT_DESIGN)
    return {"reproduced": "REJECTED" in out, "detail": "a signal of an enumeration type connected to a port of the same enumeration: " + out[-250:]}


_ACTUAL_TYPE_DESIGN = '''
from cohdl import Entity, Port, BitVector, Unsigned, std
class Leaf(Entity):
    b = Port.input(BitVector[4])
    r = Port.output(BitVector[4])
    def architecture(self):
        @std.concurrent
        def logic():
            self.r <<= self.b
class Top(Entity):
    u = Port.input(Unsigned[4])
    y = Port.output(BitVector[4])
    def architecture(self):
        Leaf(b=self.u, r=self.y)          # b : std_logic_vector, u : unsigned
try:
    t = std.VhdlCompiler.to_string(Top)
    print("ACCEPTED", [l.strip() for l in t.splitlines() if "=> u" in l])
except AssertionError as e:
    print("REJECTED", str(e)[:90])
'''


def replay_actual_type(payload):
    from contracts.c06_extra import _run_design

    rc, out = _run_design(_ACTUAL_TYPE_DESIGN)
    return {"reproduced": rc == 0 and "ACCEPTED" in out, "detail": out[-300:]}

_NARROW_DESIGN = '''
from __future__ import annotations
from cohdl import Entity, Port, Unsigned, std

class LeafW(Entity):
    u = Port.input(Unsigned[4])
    y = Port.output(Unsigned[4])
    def architecture(self):
        @std.concurrent
        def logic():
            self.y <<= self.u

class TopW(Entity):
    i = Port.input(Unsigned[3])
    o = Port.output(Unsigned[4])
    def architecture(self):
        LeafW(u=self.i, y=self.o)

try:
    std.VhdlCompiler.to_string(TopW)
    print("ACCEPTED: 3 bit actual for a 4 bit formal")
except AssertionError:
    print("REJECTED")
'''


def replay_narrow_actual(payload):
    from contracts.c06_extra import _run_design

    rc, out = _run_design(_NARROW_DESIGN)
    return {"reproduced": "ACCEPTED" in out, "detail": out[-200:]}
