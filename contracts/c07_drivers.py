"""C07: one driver per signal.  ir.EntityTemplate.__init__ (usage check).

Ghost history: the stream of (root, access, context) events delivered by
ctx.visit_objects for every context, followed by the output ports of every
sub-entity instance.  Ghost maps  writer: root -> context/instance,
user: root -> context  (the IdMaps written_in / used_in of the real code).

Per-event contract, for ARBITRARY ghost maps (so it composes over any history
by induction on the event stream):
  context c accesses obj (root r):
    WRITE/PUSH on an input port                              -> rejected
    WRITE/PUSH, r a Signal/Variable/Temporary, writer(r) defined and != c  -> rejected
    WRITE/PUSH otherwise                                     -> writer(r) := c
    any access, r a Variable/Temporary, user(r) defined and != c  -> rejected
    otherwise                                                -> user(r) := c
  instance b drives actual sig (root r) through an OUTPUT port:
    r an input port                                          -> rejected
    writer(r) defined (ANY previous writer, also b itself)   -> rejected
    otherwise                                                -> writer(r) := b
  an INOUT port of an instance connected to an input port of the entity       -> rejected (it could drive the input)
  other non-output ports of an instance are not drivers (inout ports share a resolved bus with the other drivers).
Consequence (induction): normal return => every root has at most one writer
among contexts and instance outputs, variables / intermediates are used by at
most one context, no input port is written.
"""

from __future__ import annotations

import z3

from cohdl import Signal, Variable, Temporary, Port, Bit
from cohdl._core._ir import _repr as ir
from cohdl._core._ir._repr import AccessFlags
from cohdl.utility.id_map import IdMap

from pyvc import contracts as C
from pyvc import interp as I
from pyvc.contracts import Case, contract
from pyvc.values import SCls, SObj, Opaque, PyExc
from contracts import c13_types  # class attribute models of qualified types (direction)
from contracts.c05_format_cast import Built

PROPS = ("C07",)
QUAL = "cohdl._core._ir._repr:EntityTemplate.__init__"
FN = "EntityTemplate.__init__"
R, W, P = AccessFlags.READ, AccessFlags.WRITE, AccessFlags.PUSH

for q in ("cohdl._core._type_qualifier:Port.is_input", "cohdl._core._type_qualifier:Port.is_output", "cohdl._core._type_qualifier:Port.is_inout",
          "cohdl._core._ir._repr:AccessFlags.is_read", "cohdl._core._ir._repr:AccessFlags.is_written", "cohdl._core._ir._repr:AccessFlags.is_pushed"):
    C.inline(q)

I.register_model(ir.Block.__dict__["__init__"], lambda it, self, *a, **k: None)
I.register_model(ir.Block.__dict__["all_contexts"], lambda it, self: Opaque("contexts"))
I.register_model(ir.Block.__dict__["all_blocks"], lambda it, self: Opaque("blocks"))


# ---- ghost identity map with arbitrary content ----------------------------------------------------------
class GhostIdMap:
    def __contains__(self, k): ...
    def __getitem__(self, k): ...
    def __setitem__(self, k, v): ...


def gm_state(it, gm, key):
    """(present: z3 Bool | bool, value) of `key` in the ghost map; arbitrary but fixed once asked"""
    st = gm.fields["state"]
    for k, pres, val in st:
        if k is key:
            return pres, val
    if getattr(it, "case_stream", None):
        return False, None  # stream cases start from EMPTY maps (one template, one context)
    pres = it.ctx.fresh_bool(gm.fields["name"] + "_has_root")
    # the stored context is either the current one or some other context / instance
    same = it.ctx.fresh_bool(gm.fields["name"] + "_by_current")
    other = SObj(ir.Context, __other__=True)
    ent = (key, pres, ("sym", same, other))
    st.append(ent)
    return ent[1], ent[2]


def gm_value(it, gm, key):
    pres, val = gm_state(it, gm, key)
    if isinstance(val, tuple) and val[0] == "sym":
        _, same, other = val
        v = it.current_ctx if it.ctx.branch(same) else other
        for i, (k, p, _) in enumerate(gm.fields["state"]):
            if k is key:
                gm.fields["state"][i] = (k, p, v)
        return v
    return val


def _gm_contains(it, gm, key):
    return gm_state(it, gm, key)[0]


def _gm_getitem(it, gm, key):
    return gm_value(it, gm, key)


def _gm_setitem(it, gm, key, value):
    st = gm.fields["state"]
    for i, (k, p, v) in enumerate(st):
        if k is key:
            st[i] = (k, True, value)
            break
    else:
        st.append((key, True, value))
    gm.fields["sets"].append((key, value))


I.register_model(GhostIdMap.__contains__, _gm_contains)
I.register_model(GhostIdMap.__getitem__, _gm_getitem)
I.register_model(GhostIdMap.__setitem__, _gm_setitem)


def new_ghost_map(it, args, kwargs):
    n = len(getattr(it, "ghost_maps", []))
    gm = SObj(GhostIdMap, name=["writer", "user"][n] if n < 2 else f"map{n}", state=[], sets=[])
    it.ghost_maps = getattr(it, "ghost_maps", []) + [gm]
    return gm


# ---- symbolic objects -----------------------------------------------------------------------------------
KINDS = {
    "signal": lambda: SCls(Signal, wrapped=Bit, direction=None),
    "variable": lambda: SCls(Variable, wrapped=Bit, direction=None),
    "temporary": lambda: SCls(Temporary, wrapped=Bit, direction=None),
    "in-port": lambda: SCls(Port, wrapped=Bit, direction=Port.Direction.INPUT),
    "out-port": lambda: SCls(Port, wrapped=Bit, direction=Port.Direction.OUTPUT),
    "inout-port": lambda: SCls(Port, wrapped=Bit, direction=Port.Direction.INOUT),
}


def mk_obj(kind, view):
    root = SObj(KINDS[kind](), _name="n", _ref_spec=[])
    root.fields["_root"] = root
    if not view:
        return root
    return SObj(KINDS[kind](), _root=root, _name="n", _ref_spec=[Opaque("slice")])


# ---- the context loop: one arbitrary event of one arbitrary context ------------------------------------------
def expected_event(it, obj, access, kind):
    """-> 'reject' | 'ok' from the ghost pre-state (statement of C07)"""
    writer, user = it.ghost_maps[0], it.ghost_maps[1]
    root = obj.fields["_root"]
    rej = False
    if access in (W, P):
        if kind == "in-port":
            return "reject", None, None
        if kind in ("signal", "variable", "temporary", "out-port", "inout-port"):
            pres, _ = gm_state(it, writer, root)
            if it.ctx.branch(pres) and gm_value(it, writer, root) is not it.current_ctx:
                return "reject", None, None
    if kind in ("variable", "temporary"):
        pres, _ = gm_state(it, user, root)
        if it.ctx.branch(pres) and gm_value(it, user, root) is not it.current_ctx:
            return "reject", None, None
    return "ok", (root if access in (W, P) else None), (root if kind in ("variable", "temporary") else None)


def _stream_deliver(it, operation, origins):
    """deliver the events of the case's stream that come from `origins` ('always' = the hoisted concurrent block,
    'process' = the body of the sequential context)"""
    objs = it.__dict__.setdefault("stream_objs", {})
    for origin, kind, access, rootname in it.case_stream:
        if origin not in origins:
            continue
        if rootname not in objs:
            objs[rootname] = mk_obj(kind, False)
        o = SObj(objs[rootname].cls, _root=objs[rootname], _name="n", _ref_spec=[Opaque("slice")])
        it.call(operation, [o, access], {})
    return None


def stream_always_model(it, ctx, operation):
    # Context.visit_objects of the always expression (an ir.Concurrent) visited on its own
    return _stream_deliver(it, operation, ("always",))


def stream_sequential_model(it, ctx, operation, include_always_expr=True):
    """a sequential context WITH an always-expression: Sequential.visit_objects delivers the events of the hoisted
    concurrent block (unless excluded) and of the process.  In the emitted architecture these are two drivers (a concurrent
    block and a process): a root written from both, or a process Variable used in the always-expression, must be rejected."""
    return _stream_deliver(it, operation, ("always", "process") if include_always_expr else ("process",))


def ctx_visit_model(it, ctx, operation):
    """ctx.visit_objects(check_usage): here ONE arbitrary event (the per-event contract)"""
    kind, view, access = it.case_event
    obj = mk_obj(kind, view)
    writer, user = it.ghost_maps[0], it.ghost_maps[1]
    want, w_root, u_root = expected_event(it, obj, access, kind)
    writer.fields["sets"].clear()
    user.fields["sets"].clear()
    try:
        r = it.call(operation, [obj, access], {})
        got = "ok"
    except PyExc as e:
        if e.cls is not AssertionError:
            raise
        got = "reject"
    ok = got == want
    if ok and got == "ok":
        ok = r is obj
        ws, us = writer.fields["sets"], user.fields["sets"]
        # the maps are updated for exactly this root with the current context (re-setting the same value is fine)
        ok = ok and all(k is obj.fields["_root"] and v is it.current_ctx for k, v in ws + us)
        if w_root is not None:
            pres, _ = gm_state(it, writer, w_root)
            ok = ok and (len(ws) == 1 or (len(ws) == 0 and it.ctx.branch(pres)))
        else:
            ok = ok and not ws
        if u_root is not None:
            pres, _ = gm_state(it, user, u_root)
            ok = ok and (len(us) == 1 or (len(us) == 0 and it.ctx.branch(pres)))
        else:
            ok = ok and not us
    it.ctx.prove(QUAL + "#event-contract", bool(ok), got=got, want=want)
    if got == "reject":
        raise PyExc(AssertionError, (), where="check_usage")
    return None


CASE_MODELS = [(ir.Context.__dict__["visit_objects"], ctx_visit_model)]  # case-level: other contract modules model visit_objects differently


class ContextLoop(C.LoopSpec):
    eval_iterable = False

    def has_next(self, it, frame, st):
        if getattr(it, "case_stream", None):
            return True  # exactly the one sequential context of the stream case
        return it.ctx.fresh_bool("more_contexts")

    def next_item(self, it, frame, st):
        if getattr(it, "case_stream", None):
            return SObj(ir.Sequential, _always_expr=SObj(ir.Concurrent, f_origin="always"), f_origin="process")
        c = SObj(ir.Context)
        it.current_ctx = c
        return c


    def advance(self, it, frame, st):
        if getattr(it, "case_stream", None):
            # the loop body finished for the sequential context of a stream case: nothing was rejected
            it.ctx.prove(QUAL + "#always-expression-is-a-separate-driver", False)


class BlockLoop(C.LoopSpec):
    eval_iterable = False

    def has_next(self, it, frame, st):
        return it.ctx.fresh_bool("more_blocks")

    def next_item(self, it, frame, st):
        return it.case_block(it)

    def advance(self, it, frame, st):
        it.block_done = True


ContextLoop(FN, 1, prop="C07", name=QUAL + "#loop1")
BlockLoop(FN, 2, prop="C07", name=QUAL + "#loop2")


def template_shape():
    return Built([], lambda env: SObj(ir.EntityTemplate), lambda asg: "None", lambda asg: None)


INFO = Built([], lambda env: SObj(object.__class__("Info", (), {}), name="e", attributes={}, ports={}), lambda asg: "None", lambda asg: None)
EMPTY = Built([], lambda env: [], lambda asg: "[]", lambda asg: [])

con = contract(QUAL, PROPS)


def add_event_case(kind, view, access):
    name = f"ctx-event:{kind}{'-view' if view else ''}:{access.name}"
    c = Case(name, [template_shape(), INFO, EMPTY, EMPTY], lambda sx, *a: C.ANY)
    c.native = False
    c.may_reject = AssertionError

    def setup(it, ctx, args, env):
        it.class_call_models = {IdMap: new_ghost_map}
        it.case_event = (kind, view, access)
        it.case_block = lambda it_: SObj(ir.Block)  # not an Entity: skipped
        it.current_ctx = None

    c.setup = setup
    c.models = CASE_MODELS
    con.cases.append(c)


for kind in KINDS:
    for view in (False, True):
        for access in (R, W, P):
            add_event_case(kind, view, access)


def _must_reject(sx, *a):
    sx.reject(AssertionError)


def add_stream_case(name, stream, replay):
    c = Case(name, [template_shape(), INFO, EMPTY, EMPTY], _must_reject)
    c.native = False
    c.custom_replay = replay
    c.finding_key = name

    def setup(it, ctx, args, env):
        it.class_call_models = {IdMap: new_ghost_map}
        it.case_stream = stream
        it.case_block = lambda it_: SObj(ir.Block)
        it.current_ctx = None

    c.setup = setup
    c.models = [(ir.Context.__dict__["visit_objects"], stream_always_model), (ir.Sequential.__dict__["visit_objects"], stream_sequential_model)]
    con.cases.append(c)


add_stream_case("always+process-write-same-signal", [("always", "signal", W, "s"), ("process", "signal", W, "s")], "contracts.c07_drivers.replay_always_double_driver")
add_stream_case("always-reads-process-variable", [("always", "variable", R, "v"), ("process", "variable", W, "v")], "contracts.c07_drivers.replay_always_reads_variable")


# ---- the instance loop: one arbitrary instance with up to two ports ------------------------------------------
def add_instance_case(ports):
    """ports: list of (formal direction, actual kind, actual shares root with first actual)"""
    name = "instance:" + ",".join(f"{d}->{k}{'=same' if s else ''}" for d, k, s in ports)
    c = Case(name, [template_shape(), INFO, EMPTY, EMPTY], lambda sx, *a: C.ANY)
    c.native = False
    c.may_reject = AssertionError

    def setup(it, ctx, args, env):
        it.class_call_models = {IdMap: new_ghost_map}
        it.case_event = ("signal", False, R)
        it.current_ctx = None

        def case_block(it_):
            decls, actuals, first = {}, {}, None
            for i, (d, k, same) in enumerate(ports):
                decls[f"p{i}"] = SObj(KINDS[d + "-port"]())
                if same and first is not None:
                    a = SObj(first.cls, _root=first.fields["_root"], _name="n", _ref_spec=[Opaque("slice")])
                else:
                    a = mk_obj(k, view=(i % 2 == 1))
                first = first or a
                actuals[f"p{i}"] = a
            tmpl = SObj(ir.EntityTemplate, _info=SObj(object.__class__("Info", (), {}), ports=decls))
            b = SObj(ir.Entity, _template=tmpl, _ports=actuals, _name="inst")
            it_.the_block = b
            it_.current_ctx = b  # "current" for the ghost map = this instance
            it_.block_ports = (decls, actuals)
            # expected outcome from the ghost pre-state
            writer = it_.ghost_maps[0]
            want = "ok"
            driven = []
            for n, (d, k, same) in zip(actuals, ports):
                if d == "inout" and k == "in-port":
                    want = "reject"  # an inout port can drive what it is connected to: an input port of the entity is never driven
                    break
                if d != "out":
                    continue
                root = actuals[n].fields["_root"]
                if k == "in-port":
                    want = "reject"
                    break
                pres, _ = gm_state(it_, writer, root)
                if any(r is root for r in driven) or it_.ctx.branch(pres):
                    want = "reject"  # any earlier driver, this instance included
                    break
                driven.append(root)
            it_.block_want = (want, driven)
            writer.fields["sets"].clear()
            return b

        it.case_block = case_block

    c.setup = setup
    c.models = CASE_MODELS

    def spec(sx, *a):
        return C.ANY

    con.cases.append(c)


I.register_model(ir.Block.__dict__["name"], lambda it, self: "blk")
I.register_model(ir.Context.__dict__["source_location"], lambda it, self: "somewhere")
for combo in (
    [("out", "signal", False)], [("in", "signal", False)], [("inout", "signal", False)], [("out", "in-port", False)], [("out", "out-port", False)],
    [("out", "signal", False), ("out", "signal", True)], [("out", "signal", False), ("out", "signal", False)],
    [("in", "signal", False), ("out", "signal", True)], [("out", "signal", False), ("in", "signal", True)],
    [("out", "out-port", False), ("out", "in-port", False)],
    [("inout", "in-port", False)], [("inout", "out-port", False)], [("inout", "inout-port", False)], [("in", "in-port", False)], [("in", "signal", False), ("inout", "in-port", False)],
):
    add_instance_case(combo)


# outcome check of the instance loop body: wrap the loop body via the loop spec
def _block_advance(self, it, frame, st):
    want, driven = getattr(it, "block_want", (None, None))
    if want is None:
        return
    writer = it.ghost_maps[0]
    ws = writer.fields["sets"]
    ok = want == "ok" and len(ws) == len(driven) and all(any(k is r for k, _ in ws) for r in driven) and all(v is it.the_block for _, v in ws)
    it.ctx.prove(QUAL + "#instance-contract", bool(ok), want=want)


BlockLoop.advance = _block_advance


_D1 = '''
import cohdl
from cohdl import Entity, Port, Bit, std
class E(Entity):
    clk = Port.input(Bit)
    a = Port.input(Bit)
    o = Port.output(Bit)
    def architecture(self):
        @std.sequential(std.Clock(self.clk))
        def p():
            with cohdl.always:
                self.o <<= self.a
            self.o <<= ~self.a
t = std.VhdlCompiler.to_string(E)
print("DRIVERS", [l.strip() for l in t.split("\\n") if "buffer_o <=" in l])
'''

_D2 = '''
import cohdl
from cohdl import Entity, Port, Bit, Variable, std
class E(Entity):
    clk = Port.input(Bit)
    a = Port.input(Bit)
    o = Port.output(Bit)
    def architecture(self):
        v = Variable[Bit](False)
        @std.sequential(std.Clock(self.clk))
        def p():
            v.value = self.a
            with cohdl.always:
                self.o <<= v
t = std.VhdlCompiler.to_string(E)
i = t.find("process")
print("OUTSIDE", "buffer_o <= v;" in t[:i], "DECLARED-IN-PROCESS", "variable v" in t[i:])
'''


def replay_always_double_driver(payload):
    from contracts.c06_extra import _run_design

    rc, out = _run_design(_D1)
    return {"reproduced": rc == 0 and out.count("buffer_o <=") >= 2, "detail": out[-300:]}


def replay_always_reads_variable(payload):
    from contracts.c06_extra import _run_design

    rc, out = _run_design(_D2)
    return {"reproduced": rc == 0 and "OUTSIDE True DECLARED-IN-PROCESS True" in out, "detail": out[-300:]}
