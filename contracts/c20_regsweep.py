"""C20, bounded stand-in: reg32.Output._on_write_ and reg32.Input._on_read_ executed natively.

An Output register drives a hardware signal occupying bits [offset+width-1 : offset] of its 32 bit word, an
Input register shows a signal there.  For every placement in a list of (width, offset, padding) configurations
(also via lsbs / msbs), every byte strobe pattern and a set of old / written values:
    write: signal' = bits [offset+width-1 : offset] of ((old word & ~mask) | (data & mask)),
           old word = signal << offset -- exactly the strobed bytes change, everything else keeps its value
    read : word = signal << offset, zero elsewhere
The reference is computed with Python integers, independently of std.Mask / concatenation.
"""

from __future__ import annotations

import itertools

from cohdl import BitVector, Signal
from cohdl import std
from cohdl.std.reg import reg32

CONFIGS = [(32, 0, 0), (20, 4, 8), (8, 0, 24), (8, 24, 0), (16, 8, 8), (1, 31, 0), (1, 0, 31), (12, 10, 10), (3, 7, 22), (9, 15, 8)]


class OutRoot(reg32.AddrMap):
    out: reg32.Output[0x20]

    def _config_(self, sig, kw):
        self.out._config_(sig, **kw)


class InRoot(reg32.AddrMap):
    inp: reg32.Input[0x10]

    def _config_(self, sig, kw):
        self.inp._config_(sig, **kw)


def _bits(v, w):
    return format(v, f"0{w}b")


def _val(x):
    x = getattr(x, "_value", x)
    return int(str(x.bitvector if hasattr(x, "bitvector") else x), 2)


def patterns(w):
    full = (1 << w) - 1
    base = {0, full, int(("10" * 32)[:w], 2), int(("01" * 32)[:w], 2), int(("0110100111000101" * 2)[:w], 2)}
    return sorted(base)


def register_sweep(tier="quick", seed=0):
    n = 0
    fails = {}
    strobes = range(16)
    for width, offset, padding in CONFIGS:
        variants = [{"offset": offset, "padding": padding}]
        if offset == 0 and padding:
            variants.append({"lsbs": True})
        if padding == 0 and offset:
            variants.append({"msbs": True})
        for kw in variants:
            tag = f"width={width},{','.join(f'{k}={v}' for k, v in kw.items())}"
            for old in patterns(width):
                # read
                sig = Signal[BitVector[width]](_bits(old, width))
                root = InRoot(sig, kw)
                n += 1
                got = _val(root.inp._on_read_())
                if got != old << offset:
                    fails.setdefault("Input._on_read_", f"Input({tag}) holding {old:#x} reads {got:#010x}, expected {old << offset:#010x}")
                for strb, data in itertools.product(strobes, patterns(32) if tier != "quick" else patterns(32)[:4]):
                    sig = Signal[BitVector[width]](_bits(old, width))
                    root = OutRoot(sig, kw)
                    mask = sum(0xFF << (8 * b) for b in range(4) if (strb >> b) & 1)
                    root.out._on_write_(BitVector[32](_bits(data, 32)), std.Mask(std.stretch(BitVector[4](_bits(strb, 4)), 8)))
                    n += 1
                    want = ((((old << offset) & ~mask) | (data & mask)) >> offset) & ((1 << width) - 1)
                    got = _val(sig)
                    if got != want:
                        fails.setdefault("Output._on_write_", f"Output({tag}) holding {old:#x}, write data={data:#010x} strb={strb:04b}: signal becomes {got:#x}, expected {want:#x}")
    # access kinds: what `readonly=True` / `writeonly=True` declares on a register class is what the placed
    # (specialised) class T[offset] reports -- connect_addr_map selects the readable / writable registers by these flags
    class _RO(reg32.Register, readonly=True):
        f: reg32.Field[7:0]

    class _WO(reg32.Register, writeonly=True):
        g: reg32.MemField[7:0]

    for T in (reg32.Input, reg32.Output, reg32.Word, reg32.MemWord, reg32.Register, _RO, _WO):
        for off in (0x0, 0x10):
            P = T[off]
            n += 1
            for flag in ("_readable_", "_writable_"):
                declared, placed = getattr(T, flag), getattr(P, flag)
                if bool(placed) != bool(declared):
                    fails.setdefault("access-kind-flags", f"{T.__name__}.{flag} is {declared!r} but {T.__name__}[{off:#x}].{flag} is {placed!r}: a {'readonly' if flag == '_writable_' else 'writeonly'} register is treated as {'writable' if flag == '_writable_' else 'readable'}")
    violations = []
    for key, what in sorted(fails.items()):
        oid = f"C20/register-sweep[{key}]#bounded"
        violations.append({"kind": "custom", "qual": "<C20 register sweep>", "case": key, "oid": oid, "check": "register_sweep", "key": key, "assignment": {"function": key}, "solver": {"what": what}, "reproduced": True,
                           "replay_payload": {"property": "C20", "custom": "contracts.c20_regsweep.replay", "key": key, "tier": tier, "obligation": oid, "verifier_output": what}})
    return {"evaluations": n, "distinct": n, "violations": violations,
            "bounded": [{"function": "cohdl.std.reg.reg:Output._on_write_ / Input._on_read_", "case": "placements x strobes x values", "evaluations": n, "exhaustive_within_bound": False,
                         "bound": f"{len(CONFIGS)} placements (width, offset, padding; lsbs / msbs spellings) in a 32 bit word, all 16 byte strobes, 5 old values, {4 if tier == 'quick' else 5} data words"}]}


def replay(payload):
    r = register_sweep(payload.get("tier", "quick"), 0)
    hit = [v for v in r["violations"] if v["key"] == payload["key"]]
    return {"reproduced": bool(hit), "detail": hit[0]["solver"] if hit else "register placement agrees with the integer reference"}
