"""C02, front end: the comparison dispatch of PrepareAst (nested function
`single_compare` inside PrepareAst.apply's ast.Compare branch), proved from the
real source.

Python's protocol for `a OP b`: try type(a).__OP__(a, b); if that returns
NotImplemented use the REFLECTED method of b with swapped operands, where the
reflection of OP is the operator OP' with  a OP b <=> b OP' a
(== / == , != / != , > / < , < / > , >= / <= , <= / >=).

Contract: for operands whose comparison methods compute the comparison of two
ghost numbers (class B) or return NotImplemented (class A, e.g. a plain int
literal against a vector), the value of the resulting expression is
`ghost(lhs) OP ghost(rhs)`, whichever operand implements the method; if neither
does, the design is rejected.
"""

from __future__ import annotations

import ast

import z3

from cohdl._compiler.frontend import _prepare_ast as PA
from cohdl._compiler.frontend._value_branch import ObjTraits

from pyvc import contracts as C
from pyvc import interp as I
from pyvc import sym
from pyvc.contracts import Case, contract
from pyvc.values import SObj, Opaque
from contracts.c05_format_cast import Built

PROPS = ("C02", "C10", "C09")


class _Val:
    """operand value: f_kind 'A' (methods return NotImplemented), 'B' (methods compare ghost numbers) or 'D' (like B but
    the class defines no __ne__: Python's default `!=` is the inverted __eq__, std.SFixed / std.UFixed are such classes)"""


class _Expr:
    """out.Expression stand-in"""


class _Prep:
    """PrepareAst stand-in (only subcall is used)"""


CMP = {
    "__eq__": lambda a, b: sym.eq(a, b),
    "__ne__": lambda a, b: sym.Not(sym.eq(a, b)),
    "__gt__": lambda a, b: a > b,
    "__lt__": lambda a, b: a < b,
    "__ge__": lambda a, b: a >= b,
    "__le__": lambda a, b: a <= b,
}
AST_OP = {ast.Eq: "__eq__", ast.NotEq: "__ne__", ast.Gt: "__gt__", ast.Lt: "__lt__", ast.GtE: "__ge__", ast.LtE: "__le__"}


def _expr_result(it, self):
    return self.fields["f_result"]


def _expr_add_bound(it, self, stmt):
    self.fields.setdefault("f_bound", []).append(stmt)
    return None


_Expr.result = lambda self: None
_Expr.add_bound_statement = lambda self, s: None
I.register_model(_Expr.result, _expr_result)
I.register_model(_Expr.add_bound_statement, _expr_add_bound)


def _gettype(it, obj):
    return ("type", obj.fields["f_kind"])


def _getattr(it, typ, name):
    if typ[1] in ("D", "E") and name == "__ne__":
        return object.__ne__  # classes D / E define __eq__ only: their __ne__ is the one inherited from object
    return ("method", typ[1], name)


def _subcall(it, self, fn, args, kwargs, noreturn=None):
    if fn is object.__ne__:
        # a slot wrapper has no Python source: it runs NATIVELY on the compile-time placeholders of the operands; its
        # result is a constant that does not depend on the run-time values
        return SObj(_Expr, f_result=True)
    _, kind, name = fn
    x, y = args
    if kind in ("A", "E"):  # E: an __eq__ that does not know the other operand (and no __ne__ of its own)
        return SObj(_Expr, f_result=NotImplemented)
    return SObj(_Expr, f_result=CMP[name](x.fields["f_v"], y.fields["f_v"]))


_Prep.subcall = lambda self, fn, args, kwargs, noreturn=None: None
I.register_model(_Prep.subcall, _subcall)

MODELS = [(ObjTraits.__dict__["gettype"].__func__ if isinstance(ObjTraits.__dict__["gettype"], staticmethod) else ObjTraits.__dict__["gettype"], _gettype),
          (ObjTraits.__dict__["getattr"].__func__ if isinstance(ObjTraits.__dict__["getattr"], staticmethod) else ObjTraits.__dict__["getattr"], _getattr)]


def operand_shape(name, kind):
    def make(env):
        return SObj(_Expr, f_result=SObj(_Val, f_kind=kind, f_v=env[name]))

    return Built([name], make, lambda a: "<expr>", lambda a: None)


def cmp_spec(opname, kl, kr):
    def spec(sx, operator, lhs, rhs):
        if kl in ("A", "E") and kr in ("A", "E"):
            sx.reject(AssertionError)
        want = CMP[opname](lhs.fields["f_result"].fields["f_v"], rhs.fields["f_result"].fields["f_v"])

        def holds(res):
            if not (isinstance(res, SObj) and res.kind is _Expr):
                return False
            r = res.fields.get("f_result")
            if r is NotImplemented or not (sym.is_sym(r) or isinstance(r, bool)):
                return False
            return sym.eq(r, want) if not (isinstance(r, bool) and isinstance(want, bool)) else r == want

        return C.Pred(holds, f"value of lhs {opname} rhs")

    return spec


con = contract("cohdl._compiler.frontend._prepare_ast:PrepareAst.apply_impl.<single_compare>", PROPS)
con.custom_fn = PA.PrepareAst.__dict__["apply_impl"]
con.nested = ["single_compare"]
for op_cls, opname in AST_OP.items():
    for kl in ("A", "B"):
        for kr in ("A", "B"):
            opshape = Built([], (lambda oc: lambda env: oc())(op_cls), lambda a: "<op>", lambda a: None)
            c = Case(f"{op_cls.__name__}:{kl},{kr}", [opshape, operand_shape("x", kl), operand_shape("y", kr)], cmp_spec(opname, kl, kr))
            c.native = False
            c.may_reject = AssertionError
            c.nested_env = lambda it: {"self": SObj(_Prep)}
            c.models = MODELS
            con.cases.append(c)


def _mk_inv(it, args, kwargs):
    op, arg, target = args
    assert op is PA.out.UnaryOp.Operator.INV
    return SObj(_Expr, f_result=sym.Not(arg.fields["f_result"].fields["f_v"]))


# operands of a class with __eq__ but without __ne__: `a != b` is the inverted value of the TRACED __eq__ (until fix
# the default object.__ne__ ran natively on the placeholders and the comparison was folded to a constant)
for op_cls, opname in ((ast.NotEq, "__ne__"), (ast.Eq, "__eq__")):
    for kl, kr in (("D", "A"), ("D", "B"), ("D", "D"), ("A", "D"), ("B", "D"), ("E", "B"), ("E", "D"), ("E", "E"), ("E", "A")):
        opshape = Built([], (lambda oc: lambda env: oc())(op_cls), lambda a: "<op>", lambda a: None)
        c = Case(f"{op_cls.__name__}:{kl},{kr}", [opshape, operand_shape("x", kl), operand_shape("y", kr)], cmp_spec(opname, kl, kr))
        c.native = False
        c.may_reject = AssertionError
        c.nested_env = lambda it: {"self": SObj(_Prep)}
        c.models = MODELS
        c.interp_flags = {"class_call_models": {PA.out.UnaryOp: _mk_inv, PA.Temporary[bool]: lambda it, args, kw: SObj(_Val, f_kind="T"), PA.Temporary: lambda it, args, kw: SObj(_Val, f_kind="T"),
                                                PA.out.Value: lambda it, args, kw: SObj(_Expr, f_result=args[0])}}
        c.custom_replay = "contracts.c02_frontend.replay_default_ne"
        con.cases.append(c)


_NE_DESIGN = '''
import cohdl
from cohdl import Entity, Port, Bit, Signed, std
from cohdl.std import SFixed

class NeDesign(Entity):
    a = Port.input(Signed[8])
    b = Port.input(Signed[8])
    o1 = Port.output(Bit)
    o2 = Port.output(Bit)
    o3 = Port.output(Bit)

    def architecture(self):
        @std.concurrent
        def logic():
            x = SFixed[4:-3](raw=self.a)
            w = SFixed[4:-3](raw=self.b)
            self.o1 <<= x != w
            self.o2 <<= x != 1.5
            self.o3 <<= 1.5 != x

print(std.VhdlCompiler.to_string(NeDesign))
'''


def replay_default_ne(payload):
    """native: `!=` of std.SFixed values (class with __eq__ only) must depend on the run-time operands"""
    import re
    from contracts.c06_extra import _run_design
    rc, text = _run_design(_NE_DESIGN)
    bad = [p for p in ("o1", "o2", "o3") if re.search(rf"buffer_{p} <= '[01]';", text)]
    return {"reproduced": rc == 0 and bool(bad),
            "detail": f"x != w, x != 1.5, 1.5 != x for x, w = SFixed[4:-3] built from input ports: outputs {bad} are driven by a constant (comparison evaluated on compile-time placeholders)"}


# ---- all() / any(): constant folding mixed with run-time elements ------------------------------------------------
# PrepareAst.convert_intrinsic, branches `_All` / `_Any`.  Elements of the iterable (arrangements enumerated up to
# three elements): a run-time type-qualified value ('q'), a compile-time True / False ('T' / 'F'), an object whose
# boolean conversion is a run-time value ('r').  Contract: the produced expression has the value
# AND / OR over ALL elements -- a constant exactly when the run-time elements cannot change the outcome.
import itertools as _it

from cohdl._core import _intrinsic as INTR
from cohdl._core._intrinsic_definitions import _All, _Any
from cohdl._core._type_qualifier import Signal as _Signal
from cohdl._compiler.frontend import _prepare_ast_out as OUT


class _Obj:
    """an element that is not a TypeQualifier and whose __bool__ is a run-time value"""


class _Repl:
    """entry of _intrinsic_replacements"""


def _marker_all(iterable):
    pass


def _repl_fn(iterable):
    """the special-case replacement of all()/any(): wraps the iterable in _All / _Any"""


I.register_model(_repl_fn, lambda it, iterable: SObj(it.fold_marker, iterable=iterable))


def _convert_boolean(it, self, x, bound=None):
    if isinstance(x, bool):
        return SObj(_Expr, f_result=x)
    if sym.is_sym(x):  # the run-time result of a traced comparison
        return SObj(_Expr, f_result=SObj(_Val, f_kind="T", f_v=x))
    if isinstance(x, SObj) and x.kind is _Obj:
        return SObj(_Expr, f_result=SObj(_Signal, f_b=x.fields["f_b"], _value=None, _ref_spec=[]))
    if isinstance(x, SObj) and x.kind is _Signal:
        return SObj(_Expr, f_result=x)
    raise AssertionError(x)


_Prep.convert_boolean = lambda self, x, bound=None: None
I.register_model(_Prep.convert_boolean, _convert_boolean)


def fold_shape(kinds, which):
    names = [f"e{i}" for i, k in enumerate(kinds) if k in "qr"]

    def make(env):
        elems = []
        for i, k in enumerate(kinds):
            if k == "T":
                elems.append(True)
            elif k == "F":
                elems.append(False)
            elif k == "q":
                elems.append(SObj(_Signal, f_b=sym.Not(sym.eq(env[f"e{i}"], 0)), _value=None, _ref_spec=[]))
            else:
                elems.append(SObj(_Obj, f_b=sym.Not(sym.eq(env[f"e{i}"], 0))))
        return elems

    return Built(names, make, lambda a: "<iterable>", lambda a: None)


def fold_spec(kinds, which):
    def spec(sx, self, fn, args, kwargs):
        elems = args[0]
        vals = [e if isinstance(e, bool) else e.fields["f_b"] for e in elems]
        want = (sym.And(*vals) if vals else True) if which == "all" else (sym.Or(*vals) if vals else False)

        def holds(res):
            if not isinstance(res, SObj):
                return False
            if res.kind is OUT.Value:
                r = res.fields["f_value"]
                if not isinstance(r, bool):
                    return False
                return sym.eq(sym.to_z3(want) if sym.is_sym(want) else want, r) if sym.is_sym(want) else want == r
            if res.kind is (OUT.All if which == "all" else OUT.Any):
                conds = res.fields["f_conditions"]
                if not conds:
                    return False
                gv = [c.fields["f_b"] for c in conds]
                got = sym.And(*gv) if which == "all" else sym.Or(*gv)
                return sym.eq(got, want)
            return False

        return C.Pred(holds, f"value of {which}(elements)")

    return spec


def _mk_value(it, args, kwargs):
    return SObj(OUT.Value, f_value=args[0], f_bound=args[1])


def _mk_all(it, args, kwargs):
    return SObj(OUT.All, f_conditions=list(args[0]), f_bound=args[1])


def _mk_any(it, args, kwargs):
    return SObj(OUT.Any, f_conditions=list(args[0]), f_bound=args[1])


con = contract("cohdl._compiler.frontend._prepare_ast:PrepareAst.convert_intrinsic", PROPS)
for which, marker_cls in (("all", _All), ("any", _Any)):
    for n in range(0, 4):
        for kinds in _it.product("qTFr", repeat=n):
            kinds = "".join(kinds)
            FN = Built([], lambda env: _marker_all, lambda a: "<fn>", lambda a: None)
            ARGS = fold_shape(kinds, which)
            ARGL = Built(ARGS.names, (lambda A: lambda env: [A.make(None, env)])(ARGS), lambda a: "<args>", lambda a: None)
            KW = Built([], lambda env: {}, lambda a: "{}", lambda a: None)
            SELF = Built([], lambda env: SObj(_Prep), lambda a: "<self>", lambda a: None)
            c = Case(f"{which}:[{kinds}]", [SELF, FN, ARGL, KW], fold_spec(kinds, which))
            c.native = False

            def setup(it, ctx, args, env, marker_cls=marker_cls):
                repl = SObj(_Repl, is_special_case=True, evaluate=False, assignment_spec=None)
                repl.fields["fn"] = _repl_fn
                ctx.global_overlay[("cohdl._compiler.frontend._prepare_ast", "_intrinsic_replacements")] = {_marker_all: repl}
                it.fold_marker = marker_cls

            c.setup = setup
            c.models = [(INTR._has_intrinsic_replacement, lambda it, fn: True)]
            c.interp_flags = {"class_call_models": {OUT.Value: _mk_value, OUT.All: _mk_all, OUT.Any: _mk_any}}
            con.cases.append(c)


# ---- `x and y and ...` / `x or y or ...` (ast.BoolOp branch of apply_impl): the truth value of the conjunction / disjunction of
# ALL operands, a constant exactly when the run-time operands cannot change it (same arrangements as all() / any())
_Prep.apply = getattr(_Prep, "apply", lambda self, node: None)


def boolop_spec(kinds, which):
    inner = fold_spec(kinds, which)

    def spec(sx, self, inp):
        return inner(sx, self, None, [sx.it.operands], {})

    return spec


con = contract("cohdl._compiler.frontend._prepare_ast:PrepareAst.apply_impl", PROPS)
for which, opsym in (("all", "and"), ("any", "or")):
    for n in range(2, 4):
        for kinds in _it.product("qTFr", repeat=n):
            kinds = "".join(kinds)
            node = ast.parse(f" {opsym} ".join(f"x{i}" for i in range(n)), mode="eval").body
            ARGS = fold_shape(kinds, which)
            SELF = Built(ARGS.names, (lambda A: lambda env: SObj(_Prep, _last_apply_inp=None, f_operands=A.make(None, env)))(ARGS), lambda a: "<self>", lambda a: None, ARGS._assume if hasattr(ARGS, "_assume") else None)
            INP = Built([], (lambda nd: lambda env: nd)(node), lambda a: "<boolop>", lambda a: None)
            c = Case(f"boolop:{opsym}:[{kinds}]", [SELF, INP], boolop_spec(kinds, which))
            c.native = False

            def setup_bo(it, ctx, args, env, node=node):
                it.operands = args[0].fields["f_operands"]
                it.boolop_node = node

            def _apply_operand(it, self, sub):
                idx = [i for i, v in enumerate(it.boolop_node.values) if v is sub][0]
                return SObj(_Expr, f_result=it.operands[idx])

            c.setup = setup_bo
            c.models = [(_Prep.apply, _apply_operand)]
            c.interp_flags = {"class_call_models": {OUT.Value: _mk_value, OUT.All: _mk_all, OUT.Any: _mk_any}}
            con.cases.append(c)


# ---- chained comparisons `a OP1 m OP2 b` (ast.Compare branch of apply_impl): every operand is evaluated ONCE ---------------------
# Python evaluates the shared middle operand once.  The conjunction is built from single comparisons that carry the statements
# bound to their operands, so only the FIRST comparison that is emitted may carry the middle operand's statements: the later one
# gets a plain value (otherwise an inlined helper with a side effect runs twice and the two comparisons see different values).
CHAIN_NODE = ast.parse("a <= m < b", mode="eval").body


def chain_spec(sx, self, inp):
    it = sx.it

    def holds(res):
        if not (isinstance(res, SObj) and res.kind is OUT.All):
            return False
        cmps = res.fields["f_bound"]
        if len(cmps) != 2 or len(res.fields["f_conditions"]) != 2:
            return False
        first, second = cmps
        fb, sb = first.fields.get("f_bound", []), second.fields.get("f_bound", [])
        if len(fb) != 2 or len(sb) != 2:
            return False
        ea, em, eb = it.chain_operands
        if fb[0] is not ea or fb[1] is not em or sb[1] is not eb:
            return False
        m2 = sb[0]
        # the middle operand of the second comparison: same value, NO bound statements
        if not (isinstance(m2, SObj) and m2.fields.get("f_result") is em.fields["f_result"] and m2.fields.get("f_bound") == []):
            return False
        va, vm, vb = (e.fields["f_result"].fields["f_v"] for e in (ea, em, eb))
        return sym.And(sym.eq(first.fields["f_result"], va <= vm), sym.eq(second.fields["f_result"], vm < vb))

    return C.Pred(holds, "All([a <= m, m < b]); the statements bound to m belong to the first comparison only")


def _chain_apply(it, self, node):
    idx = {"a": 0, "m": 1, "b": 2}[node.id]
    return it.chain_operands[idx]


c = Case("compare-chain:a<=m<b,all-run-time", [Built(["a", "m", "b"], lambda env: SObj(_Prep, _last_apply_inp=None, f_env=dict(env)), lambda a: "<self>", lambda a: None),
                                               Built([], lambda env: CHAIN_NODE, lambda a: "<a <= m < b>", lambda a: None)], chain_spec)
c.native = False


def _chain_setup(it, ctx, args, env):
    it.chain_operands = [SObj(_Expr, f_result=SObj(_Val, f_kind="B", f_v=env[n]), f_bound=[f"<statements bound to {n}>"]) for n in ("a", "m", "b")]


c.setup = _chain_setup
c.models = MODELS + [(_Prep.apply, _chain_apply), (ObjTraits.__dict__["runtime_variable"].__func__ if isinstance(ObjTraits.__dict__["runtime_variable"], staticmethod) else ObjTraits.__dict__["runtime_variable"], lambda it, v: sym.is_sym(v))]
c.interp_flags = {"class_call_models": {OUT.Value: lambda it, args, kw: SObj(_Expr, f_result=args[0], f_bound=list(args[1])), OUT.All: _mk_all}}
con.cases.append(c)


# chained comparison of compile-time constants (C10: "chained comparisons ... evaluate to exactly the values CPython produces"):
# every link compares ADJACENT operands
CONST_CHAIN_NODE = ast.parse("a < m < b", mode="eval").body
CONST_CHAINS = [(1, 5, 3), (1, 2, 3), (5, 1, 3), (1, 1, 3), (2, 3, 3), (3, 2, 1), (1, 3, 2)]


def const_chain_spec(vals):
    a, m, b = vals
    want = a < m < b

    def spec(sx, self, inp):
        def holds(res):
            return isinstance(res, SObj) and res.kind is _Expr and res.fields.get("f_result") is want

        return C.Pred(holds, f"{a} < {m} < {b} == {want}")

    return spec


for vals in CONST_CHAINS:
    c = Case(f"compare-chain:constants {vals[0]}<{vals[1]}<{vals[2]}", [Built([], lambda env: SObj(_Prep, _last_apply_inp=None), lambda a: "<self>", lambda a: None),
                                                                    Built([], lambda env: CONST_CHAIN_NODE, lambda a: "<a < m < b>", lambda a: None)], const_chain_spec(vals))
    c.native = False

    def _const_setup(it, ctx, args, env, vals=vals):
        it.chain_operands = [SObj(_Expr, f_result=SObj(_Val, f_kind="B", f_v=v), f_bound=[]) for v in vals]

    c.setup = _const_setup
    c.models = MODELS + [(_Prep.apply, _chain_apply), (ObjTraits.__dict__["runtime_variable"].__func__ if isinstance(ObjTraits.__dict__["runtime_variable"], staticmethod) else ObjTraits.__dict__["runtime_variable"], lambda it, v: sym.is_sym(v)),
                         (ObjTraits.__dict__["get"].__func__ if isinstance(ObjTraits.__dict__["get"], staticmethod) else ObjTraits.__dict__["get"], lambda it, v: v)]
    c.interp_flags = {"class_call_models": {OUT.Value: lambda it, args, kw: SObj(_Expr, f_result=args[0], f_bound=list(args[1])), OUT.All: _mk_all}}
    con.cases.append(c)


# ---- class-A operands are real: a builtin literal as FIRST operand of a comparison --------------------------------------
# The single_compare contract above ASSUMES that the comparison method of a class-A operand (int / str literal) returns
# NotImplemented when it is traced (model `_subcall`).  The real PrepareAst.subcall only does so when the slot wrapper
# (`str.__ne__`, `int.__ge__` ...) is a registered intrinsic; otherwise the design is rejected although CPython's protocol
# (and the same comparison written with the operands swapped) accepts it.  Bounded native check behind that assumption:
# for every literal L, vector port a and operator OP,  `L OP a`  is accepted exactly when the reflected form  `a OP' L`
# is, and both emit the same expression.
_LIT_SCRIPT = r'''
from __future__ import annotations
import json, linecache, re
from cohdl import Entity, Port, Bit, BitVector, Unsigned, Signed, std

REFLECT = {"==": "==", "!=": "!=", "<": ">", ">": "<", "<=": ">=", ">=": "<="}
PORTS = {"BitVector[4]": ['"1010"'], "Unsigned[4]": ['"1010"', "5", "0"], "Signed[4]": ['"1010"', "5", "-3"], "Bit": ['"1"', "True", "1"]}
bad, n = [], 0


def build(ptype, expr):
    ns = dict(globals())
    src = f"""
class Top(Entity):
    a = Port.input({ptype})
    x = Port.output(Bit)

    def architecture(self):
        @std.concurrent
        def logic():
            self.x <<= {expr}
"""
    fname = f"<literal design {len(linecache.cache)}>"
    linecache.cache[fname] = (len(src), None, src.splitlines(True), fname)
    exec(compile(src, fname, "exec"), ns)
    text = std.VhdlCompiler.to_string(ns["Top"])
    return text[text.index("CONCURRENT BLOCK (logic)"):]


for ptype, lits in PORTS.items():
    for lit in lits:
        for op, rop in REFLECT.items():
            n += 1
            try:
                want = build(ptype, f"self.a {rop} {lit}")
            except Exception:
                continue  # the comparison itself is not supported for this operand pair: nothing to demand
            key = f"{lit} {op} {ptype}"
            try:
                got = build(ptype, f"{lit} {op} self.a")
            except Exception as e:
                bad.append([key, f"`{lit} {op} self.a` is rejected ({type(e).__name__}: {str(e)[:90]}); CPython falls back to the reflected method and `self.a {rop} {lit}` is accepted"])
                continue
            if got != want:
                bad.append([key, f"`{lit} {op} self.a` and `self.a {rop} {lit}` emit different logic"])
print("RESULT" + json.dumps({"evaluations": n, "bad": bad}))
'''


def literal_first_sweep(tier="quick", seed=0):
    import json

    from contracts.c06_extra import _run_design

    rc, text = _run_design(_LIT_SCRIPT)
    if "RESULT" not in text:
        return {"problems": [f"literal_first_sweep: the script failed: {text[-400:]}"]}
    data = json.loads(text[text.index("RESULT") + 6:].splitlines()[0])
    violations = []
    for key, what in data["bad"]:
        oid = f"C02/literal_first_sweep[{key}]#bounded"
        w = f"{key}: {what}"
        violations.append({"kind": "custom", "qual": "<C02 comparisons with a literal first operand>", "case": key, "oid": oid, "check": "literal_first_sweep", "key": key, "assignment": {"expression": key}, "solver": {"what": w},
                           "reproduced": True, "replay_payload": {"property": "C02", "custom": "contracts.c02_frontend.replay_literal_first", "key": key, "obligation": oid, "verifier_output": w}})
    return {"evaluations": data["evaluations"], "distinct": data["evaluations"], "violations": violations, "samples": [{"evaluations": data["evaluations"]}],
            "bounded": [{"function": "cohdl._compiler.frontend._prepare_ast:PrepareAst.subcall (builtin slot wrappers of class-A operands) through PrepareAst.apply_impl.<single_compare>", "case": "literal_first_sweep",
                         "evaluations": data["evaluations"], "exhaustive_within_bound": True,
                         "bound": "literals {str, int, bool} x ports {BitVector[4], Unsigned[4], Signed[4], Bit} x 6 comparison operators; oracle = the same comparison with swapped operands and the reflected operator"}]}


def replay_literal_first(payload):
    r = literal_first_sweep()
    hit = [v for v in r.get("violations", []) if v["key"] == payload["key"]]
    return {"reproduced": bool(hit), "detail": hit[0]["solver"]["what"] if hit else "accepted in both operand orders with the same emitted expression"}
