"""C03 / C04: ir.Sequential._pushed_resettable_signals -- which objects a
reset re-initialises and which signals fall back to their default after a push.

Proved from the real source (the two nested visitors and the function itself):

 visit_objects(obj, access)   [per event, for ARBITRARY prior content of the two sets]
     the ROOT of obj is added to `pushed`      iff  access contains PUSH
     the ROOT of obj is added to `resettable`  iff  access contains PUSH or WRITE, the ROOT has a default
                                                    and the ROOT is not marked noreset
     (flags and default are those of the root, not of the slice / view `obj`); nothing is removed;
     the object itself is returned unchanged.
 visit_statements(stmt)
     a reset_context statement becomes exactly one default assignment per resettable root
     (signal assignment for signals, variable assignment otherwise, value = root.default());
     a reset_pushed statement becomes exactly one default SIGNAL assignment per pushed root;
     every other statement is returned unchanged.
 _pushed_resettable_signals(self)
     all objects are visited BEFORE the statements are rewritten, and the rewriting uses the sets
     collected from this context (event streams enumerated).
"""

from __future__ import annotations

import itertools

import z3

from cohdl._core._ir import _repr as ir
from cohdl._core._type_qualifier import Signal, Variable, TypeQualifier
from cohdl.utility.id_map import IdSet

from pyvc import contracts as C
from pyvc import interp as I
from pyvc import sym
from pyvc.contracts import Case, contract
from pyvc.values import SObj, Opaque
from contracts.c05_format_cast import Built

PROPS = ("C03", "C04")
AF = ir.AccessFlags


class _GSet:
    """identity set with arbitrary prior content; only the additions are tracked"""


def _gset_add(it, self, x):
    # identity set: adding an element that is already present changes nothing
    if not any(x is y for y in self.fields["items"] + self.fields["added"]):
        self.fields["added"].append(x)


def _gset_iter(it, self):
    return iter(list(self.fields["items"]) + list(self.fields["added"]))


def _gset_contains(it, self, x):
    return any(x is y for y in self.fields["items"] + self.fields["added"])


_GSet.add = lambda self, x: None
_GSet.__iter__ = lambda self: None
_GSet.__contains__ = lambda self, x: None
I.register_model(_GSet.add, _gset_add)
I.register_model(_GSet.__iter__, _gset_iter)
I.register_model(_GSet.__contains__, _gset_contains)


def gset(items=()):
    return SObj(_GSet, items=list(items), added=[])


def root_obj(kind, tag, env=None):
    o = SObj(kind, f_tag=tag, _ref_spec=[], f_default=Opaque(f"default-of-{tag}"))
    o.fields["_root"] = o
    if env is not None:
        o.fields["f_has_default"] = sym.Not(sym.eq(env[tag + "_d"], 0))
        o.fields["_noreset"] = sym.Not(sym.eq(env[tag + "_n"], 0))
    return o


TQ_MODELS = [
    (TypeQualifier.__dict__["has_default"], lambda it, self: self.fields["f_has_default"]),
    (TypeQualifier.__dict__["default"], lambda it, self: self.fields["f_default"]),
]

FLAGS = [AF._ZERO, AF.READ, AF.WRITE, AF.PUSH, AF.READ | AF.WRITE, AF.READ | AF.PUSH, AF.WRITE | AF.PUSH, AF.READ | AF.WRITE | AF.PUSH]


# ---- visit_objects -------------------------------------------------------------------------------------------------
def obj_shape(view):
    """the visited object: the root itself, or a slice / view of it with its OWN (different) flags"""
    names = ["r_d", "r_n"] + (["v_n", "v_d"] if view else [])

    def make(env):
        r = root_obj(Signal, "r", env)
        if not view:
            return r
        v = SObj(Signal, f_tag="view", _ref_spec=["slice"], f_default=Opaque("default-of-view"))
        v.fields["_root"] = r
        v.fields["f_has_default"] = sym.Not(sym.eq(env["v_d"], 0))
        v.fields["_noreset"] = sym.Not(sym.eq(env["v_n"], 0))
        return v

    return Built(names, make, lambda a: "<object>", lambda a: None)


def visit_objects_spec(flags):
    def spec(sx, obj, access):
        real_obj = sx.real_args[0]
        root = real_obj.fields["_root"]
        it = sx.it
        want_pushed = bool(flags & AF.PUSH)
        touched = bool(flags & (AF.PUSH | AF.WRITE))
        resettable_cond = sym.And(root.fields["f_has_default"], sym.Not(root.fields["_noreset"])) if touched else False

        def holds(res):
            if res is not real_obj:
                return False
            p, r = it.g_pushed.fields["added"], it.g_resettable.fields["added"]
            if (len(p) == 1 and p[0] is root) != want_pushed or len(p) > 1:
                return False
            if len(r) > 1 or (r and r[0] is not root):
                return False
            return sym.eq(sym.to_z3(resettable_cond) if sym.is_sym(resettable_cond) else resettable_cond, len(r) == 1) if sym.is_sym(resettable_cond) else (resettable_cond == (len(r) == 1))

        return C.Pred(holds, "root added to pushed / resettable exactly as specified")

    return spec


con = contract("cohdl._core._ir._repr:Sequential._pushed_resettable_signals.<visit_objects>", PROPS)
con.custom_fn = ir.Sequential.__dict__["_pushed_resettable_signals"]
con.nested = ["visit_objects"]
for view in (False, True):
    for flags in FLAGS:
        FL = Built([], (lambda f: lambda env: f)(flags), lambda a: "<flags>", lambda a: None)
        c = Case(f"{'view' if view else 'root'}:{flags.name or 'none'}", [obj_shape(view), FL], visit_objects_spec(flags))
        c.native = False
        c.models = TQ_MODELS

        def nested_env(it):
            it.g_pushed, it.g_resettable = gset(), gset()
            return {"pushed": it.g_pushed, "resettable": it.g_resettable}

        c.nested_env = nested_env
        con.cases.append(c)


# ---- visit_statements ----------------------------------------------------------------------------------------------
def _mk_sigassign(it, args, kwargs):
    return SObj(ir.SignalAssignment, _target=args[0], _source=args[1], _frame=args[2] if len(args) > 2 else kwargs.get("frame"))


def _mk_varassign(it, args, kwargs):
    return SObj(ir.VariableAssignment, _target=args[0], _source=args[1])


def _mk_block(it, args, kwargs):
    return SObj(ir.CodeBlock, f_content=list(args[0]), _parent=args[1] if len(args) > 1 else kwargs.get("parent"))


CLASS_MODELS = {ir.SignalAssignment: _mk_sigassign, ir.VariableAssignment: _mk_varassign, ir.CodeBlock: _mk_block}


def stmt_shape(kind):
    def make(env):
        if kind == "reset_context":
            return SObj(ir._ResetContext, _frame="frame")
        if kind == "reset_pushed":
            return SObj(ir._ResetPushed, _frame="frame")
        return SObj(ir.SignalAssignment, _target=Opaque("t"), _source=Opaque("s"), _frame=None)

    return Built([], make, lambda a: "<stmt>", lambda a: None)


def visit_statements_spec(kind, res_kinds, push_count):
    def spec(sx, stmt):
        real_stmt = sx.real_args[0]
        it = sx.it

        def holds(res):
            if kind == "other":
                return res is real_stmt
            if not (isinstance(res, SObj) and res.kind is ir.CodeBlock and res.fields.get("_parent") is None):
                return False
            content = res.fields["f_content"]
            roots = it.g_resettable.fields["items"] if kind == "reset_context" else it.g_pushed.fields["items"]
            if len(content) != len(roots):
                return False
            for a, r in zip(content, roots):
                if not isinstance(a, SObj):
                    return False
                want_cls = ir.SignalAssignment if (kind == "reset_pushed" or r.kind is Signal) else ir.VariableAssignment
                if a.kind is not want_cls or a.fields["_target"] is not r or a.fields["_source"] is not r.fields["f_default"]:
                    return False
            return True

        return C.Pred(holds, "one default assignment per root")

    return spec


con = contract("cohdl._core._ir._repr:Sequential._pushed_resettable_signals.<visit_statements>", PROPS)
con.custom_fn = ir.Sequential.__dict__["_pushed_resettable_signals"]
con.nested = ["visit_statements"]
for kind in ("reset_context", "reset_pushed", "other"):
    for n in range(0, 3):
        for res_kinds in itertools.product((Signal, Variable), repeat=n):
            for push_count in range(0, 3):
                if kind == "reset_context" and push_count != 0:
                    continue
                if kind != "reset_context" and n != 0 and kind == "reset_pushed":
                    continue
                if kind == "other" and (n, push_count) != (1, 1):
                    continue
                name = f"{kind}:resettable=[{','.join(k.__name__ for k in res_kinds)}],pushed={push_count}"
                c = Case(name, [stmt_shape(kind)], visit_statements_spec(kind, res_kinds, push_count))
                c.native = False
                c.models = TQ_MODELS
                c.interp_flags = {"class_call_models": CLASS_MODELS}

                def nested_env(it, res_kinds=res_kinds, push_count=push_count):
                    it.g_resettable = gset([root_obj(k, f"r{i}") for i, k in enumerate(res_kinds)])
                    it.g_pushed = gset([root_obj(Signal, f"p{i}") for i in range(push_count)])
                    return {"pushed": it.g_pushed, "resettable": it.g_resettable}

                c.nested_env = nested_env
                con.cases.append(c)


# ---- the function: objects are collected first, then the statements are rewritten with THESE sets ------------------
class _Code:
    """the context's CodeBlock: visit(fn) applies fn to each statement and keeps the replacements"""


def _code_visit(it, self, fn):
    it.order.append("statements")
    self.fields["f_out"] = [it.call(fn, [s], {}) for s in self.fields["f_stmts"]]
    return self


_Code.visit = lambda self, fn: None
I.register_model(_Code.visit, _code_visit)


def _ctx_visit_objects(it, self, fn, include_always_expr=True):
    # events of the hoisted always expression are delivered like those of the process unless the caller excludes them
    it.order.append("objects")
    for obj, flags, in_always in self.fields["f_events"]:
        if in_always and not include_always_expr:
            continue
        it.call(fn, [obj, flags], {})


def whole_spec(events):
    def spec(sx, self):
        it = sx.it
        real_self = sx.real_args[0]

        def holds(res):
            if it.order != ["objects", "statements"]:
                return False
            out = real_self.fields["_code"].fields["f_out"]
            ctx_block, pushed_block, other = out
            want_res = []
            want_push = []
            for obj, flags, in_always in real_self.fields["f_events"]:
                if in_always:
                    # the always expression is emitted as a concurrent block OUTSIDE the process: an object it drives
                    # must not get a second driver (the reset / push-default assignment inside the process)
                    continue
                root = obj.fields["_root"]
                if flags & AF.PUSH and not any(x is root for x in want_push):
                    want_push.append(root)
                if flags & (AF.PUSH | AF.WRITE) and root.fields["f_has_default"] and not root.fields["_noreset"] and not any(x is root for x in want_res):
                    want_res.append(root)
            got_res = [a.fields["_target"] for a in ctx_block.fields["f_content"]]
            got_push = [a.fields["_target"] for a in pushed_block.fields["f_content"]]
            same = lambda a, b: len(a) == len(b) and all(any(x is y for y in b) for x in a)
            return same(got_res, want_res) and same(got_push, want_push) and other is real_self.fields["_code"].fields["f_stmts"][2]

        return C.Pred(holds, "reset / push blocks cover exactly the roots collected from this context")

    return spec


def ctx_shape(events):
    def make(env):
        roots = {}

        def root(tag, kind, has_default, noreset):
            if tag not in roots:
                o = root_obj(kind, tag)
                o.fields["f_has_default"], o.fields["_noreset"] = has_default, noreset
                roots[tag] = o
            return roots[tag]

        evs = []
        for tag, kind, has_default, noreset, flags, view, *in_always in events:
            in_always = bool(in_always and in_always[0])
            r = root(tag, kind, has_default, noreset)
            if view:
                v = SObj(kind, f_tag=tag + "-view", _ref_spec=["slice"], f_has_default=False, _noreset=not noreset, f_default=Opaque("view-default"))
                v.fields["_root"] = r
                evs.append((v, flags, in_always))
            else:
                evs.append((r, flags, in_always))
        code = SObj(_Code, f_stmts=[SObj(ir._ResetContext, _frame="f"), SObj(ir._ResetPushed, _frame="f"), SObj(ir.SignalAssignment, _target=Opaque("t"), _source=Opaque("s"), _frame=None)])
        return SObj(ir.Sequential, _code=code, f_events=evs)

    return Built([], make, lambda a: "<sequential>", lambda a: None)


STREAMS = {
    "write-default": [("a", Signal, True, False, AF.WRITE, False)],
    "write-nodefault": [("a", Signal, False, False, AF.WRITE, False)],
    "write-noreset": [("a", Signal, True, True, AF.WRITE, False)],
    "push-noreset": [("a", Signal, True, True, AF.PUSH, False)],
    "push-only": [("a", Signal, True, False, AF.PUSH, False)],
    "slice-write-of-noreset-root": [("a", Signal, True, True, AF.WRITE, True)],
    "slice-write-of-resettable-root": [("a", Signal, True, False, AF.WRITE, True)],
    "read-only": [("a", Signal, True, False, AF.READ, False)],
    "variable-write+signal-push": [("v", Variable, True, False, AF.WRITE, False), ("s", Signal, True, False, AF.PUSH, False)],
    "same-root-twice": [("a", Signal, True, False, AF.WRITE, False), ("a", Signal, True, False, AF.PUSH, True)],
    "always-expression-writes-defaulted-signal": [("f", Signal, True, False, AF.WRITE, False, True), ("q", Signal, True, False, AF.WRITE, False)],
    "always-expression-only": [("f", Signal, True, False, AF.WRITE, False, True)],
    "always-expression-writes-slice+process-reads": [("f", Signal, True, False, AF.WRITE, True, True), ("f", Signal, True, False, AF.READ, False)],
}

con = contract("cohdl._core._ir._repr:Sequential._pushed_resettable_signals", PROPS)
for name, events in STREAMS.items():
    c = Case(name, [ctx_shape(events)], whole_spec(events))
    c.native = False
    c.models = TQ_MODELS + [(ir.Sequential.__dict__["visit_objects"], _ctx_visit_objects)]
    c.interp_flags = {"class_call_models": {**CLASS_MODELS, IdSet: lambda it, args, kwargs: gset()}}

    def setup(it, ctx, args, env):
        it.order = []

    c.setup = setup
    if name.startswith("always-"):
        c.custom_replay = "contracts.c04_reset.replay_always_reset"
    con.cases.append(c)


_ALWAYS_RESET_DESIGN = '''
import re
import cohdl
from cohdl import std, Entity, Port, Bit, Unsigned, always
class AlwaysReset(Entity):
    clk = Port.input(Bit)
    rst = Port.input(Bit)
    inp = Port.input(Bit)
    q = Port.output(Unsigned[4], default=0)
    flag = Port.output(Bit, default=False)
    def architecture(self):
        @std.sequential(std.Clock(self.clk), std.Reset(self.rst))
        def proc():
            with always:
                self.flag <<= self.inp
            self.q <<= self.q + 1
vhdl = std.VhdlCompiler.to_string(AlwaysReset)
body = vhdl[vhdl.index("\\nbegin"):]
process = re.search(r"proc: process\\(.*?end process;", body, flags=re.S).group(0)
print("IN-PROCESS", re.findall(r"buffer_flag\\s*<=[^;]*;", process))
print("OUTSIDE", re.findall(r"buffer_flag\\s*<=[^;]*;", body.replace(process, "")))
'''


def replay_always_reset(payload):
    from contracts.c06_extra import _run_design

    rc, out = _run_design(_ALWAYS_RESET_DESIGN)
    return {"reproduced": rc == 0 and "IN-PROCESS ['buffer_flag" in out and "OUTSIDE ['buffer_flag" in out,
            "detail": "signal with a default assigned in `with cohdl.always:` of a context with reset: " + out[-250:]}


# ---- Sequential.visit_objects: what is delivered, and the switch that leaves the hoisted always expression out -----------
# The always expression of a sequential context is emitted as a concurrent block OUTSIDE the process.  Callers that ask "what does
# THE PROCESS drive" (reset collection above, the single-driver check of EntityTemplate.__init__) pass include_always_expr=False;
# every other visitor gets the objects of the always expression, of the sensitivity list (one READ each) and of the body.
from cohdl._core._intrinsic import _SensitivityAll, _SensitivityList  # noqa: E402


class _CodeLog:
    """code block stand-in: visit_objects is recorded"""


_CodeLog.visit_objects = lambda self, operation: None
I.register_model(_CodeLog.visit_objects, lambda it, self, operation: it.order.append(("code", self.fields["f_tag"])))
C.inline("cohdl._core._ir._repr:Context.code")
C.inline("cohdl._core._ir._repr:Context.visit_objects")


def _visitor(obj, access):
    pass


I.register_model(_visitor, lambda it, obj, access: (it.order.append(("op", obj, access)), obj)[1])


def seq_shape(has_always, sens):
    def make(env):
        o = SObj(ir.Sequential, _code=SObj(_CodeLog, f_tag="body"))
        o.fields["_always_expr"] = SObj(ir.Concurrent, _code=SObj(_CodeLog, f_tag="always")) if has_always else None
        o.fields["_sensitivity"] = SObj(_SensitivityList, signals=[Opaque("s0"), Opaque("s1")]) if sens == "list" else SObj(_SensitivityAll)
        return o

    return Built([], make, lambda a: "<sequential>", lambda a: None)


def seq_visit_spec(has_always, sens, include):
    def spec(sx, self, operation, *rest, **kw):
        it = sx.it
        real_self = sx.real_args[0]

        def holds(res):
            want = []
            if has_always and include:
                want.append(("code", "always"))
            if sens == "list":
                want += [("op", s, AF.READ) for s in real_self.fields["_sensitivity"].fields["signals"]]
            want.append(("code", "body"))
            got = it.order
            return res is None and len(got) == len(want) and all(len(g) == len(w) and all(a is b or a == b for a, b in zip(g, w)) for g, w in zip(got, want))

        return C.Pred(holds, "always expression (unless excluded), sensitivity signals (READ), body -- each once, in this order")

    return spec


con = contract("cohdl._core._ir._repr:Sequential.visit_objects", PROPS + ("C07",))
for has_always in (False, True):
    for sens in ("list", "all"):
        for how in ("default", "include", "exclude"):
            OP = Built([], lambda env: _visitor, lambda a: "<operation>", lambda a: None)
            kwargs = {} if how == "default" else {"include_always_expr": Built([], (lambda v: lambda env: v)(how == "include"), lambda a: "<flag>", lambda a: None)}
            c = Case(f"{'always+' if has_always else ''}sensitivity-{sens}:{how}", [seq_shape(has_always, sens), OP], seq_visit_spec(has_always, sens, how != "exclude"), kwargs=kwargs)
            c.native = False

            def setup(it, ctx, args, env):
                it.order = []

            c.setup = setup
            # case-level (other contract modules register global event-stream models for every visit_objects): the two trivial
            # accessors of ir.Context, as they are written (`self._code.visit_objects(operation)`, `return self._code`)
            c.models = [(ir.Context.__dict__["visit_objects"], lambda it, self, operation: it.order.append(("code", self.fields["_code"].fields["f_tag"]))),
                        (ir.Context.__dict__["code"], lambda it, self: self.fields["_code"])]
            if has_always:
                c.custom_replay = "contracts.c04_reset.replay_always_reset"
            con.cases.append(c)
