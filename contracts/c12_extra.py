"""C12, bounded stand-in: the declared interface of entity classes under inheritance.

Entity.__init_subclass__ collects the ports / generics of a class from its base class's EntityInfo plus its own
class attributes.  For small inheritance shapes (base with k ports, a derived class adding m ports, a sibling
derived class, a second level) executed natively:
  * every class's EntityInfo lists exactly its inherited ports followed by its own, in declaration order;
  * declaring a derived class leaves the base class's (and a sibling's) EntityInfo unchanged -- the dicts are
    not shared;
  * the emitted `entity ... is port (...)` of each class has exactly those ports, in that order, with the declared
    direction.
"""

from __future__ import annotations

import itertools
import re

from cohdl import Bit, BitVector, Entity, Port, std


def _ports_of(cls):
    return list(cls._cohdl_info.ports.keys())


def _mk(base, name, ports):
    ns = {}
    for pname, direction in ports:
        ns[pname] = Port.input(Bit) if direction == "in" else Port.output(Bit)

    def architecture(self):
        outs = [getattr(self, n) for n, p in type(self)._cohdl_info.ports.items() if p.is_output()]
        ins = [getattr(self, n) for n, p in type(self)._cohdl_info.ports.items() if p.is_input()]

        @std.concurrent
        def logic():
            for o in outs:
                o <<= ins[0]

    ns["architecture"] = architecture
    return type(name, (base,), ns)


def _emitted_ports(cls):
    text = std.VhdlCompiler.to_string(cls)
    m = re.search(rf"entity {cls.__name__} is\s+port \((.*?)\);\s*end", text, re.S)
    out = []
    for line in m.group(1).split(";"):
        line = line.strip()
        if line:
            nm, rest = line.split(":")
            out.append((nm.strip(), rest.split()[0]))
    return out


def interface_sweep(tier="quick", seed=0):
    n = 0
    fails = {}
    own_sets = [[("a", "in")], [("a", "in"), ("q", "out")]]
    add_sets = [[], [("en", "in")], [("en", "in"), ("r", "out")], [("r", "out"), ("en", "in")]]
    for base_ports, d1, d2 in itertools.product(own_sets, add_sets, add_sets):
        Base = _mk(Entity, "IfBase", base_ports + ([] if any(d == "out" for _, d in base_ports) else [("o", "out")]))
        base_decl = _ports_of(Base)
        D1 = _mk(Base, "IfDerivedA", d1)
        D2 = _mk(Base, "IfDerivedB", [(p + "2", d) for p, d in d2])
        DD = _mk(D1, "IfSecondLevel", [("z", "out")])
        n += 1
        want = {
            Base: base_decl,
            D1: base_decl + [p for p, _ in d1],
            D2: base_decl + [p + "2" for p, _ in d2],
            DD: base_decl + [p for p, _ in d1] + ["z"],
        }
        for cls, w in want.items():
            got = _ports_of(cls)
            if got != w:
                fails.setdefault("EntityInfo.ports", f"{cls.__name__} (base ports {base_decl}, derived adds {[p for p, _ in d1]} / {[p + '2' for p, _ in d2]}): EntityInfo lists {got}, declared {w}")
        if Base._cohdl_info.ports is D1._cohdl_info.ports or D1._cohdl_info.ports is DD._cohdl_info.ports:
            fails.setdefault("EntityInfo.ports", "base and derived class share one port dict")
        if tier != "quick" or n % 4 == 1:
            for cls, w in want.items():
                try:
                    em = _emitted_ports(cls)
                except Exception as e:  # noqa: BLE001
                    fails.setdefault("emitted interface", f"{cls.__name__} with declared ports {w} is rejected: {type(e).__name__}: {str(e)[:80]}")
                    continue
                n += 1
                dirs = {nm: ("in" if p.is_input() else "out") for nm, p in cls._cohdl_info.ports.items()}
                if [nm for nm, _ in em] != w or any(dirs[nm] != d for nm, d in em):
                    fails.setdefault("emitted interface", f"{cls.__name__}: emitted ports {em}, declared {[(x, dirs[x]) for x in w]}")
    violations = []
    for key, what in sorted(fails.items()):
        oid = f"C12/interface-sweep[{key}]#bounded"
        violations.append({"kind": "custom", "qual": "<C12 interface sweep>", "case": key, "oid": oid, "check": "interface_sweep", "key": key, "assignment": {"clause": key}, "solver": {"what": what}, "reproduced": True,
                           "replay_payload": {"property": "C12", "custom": "contracts.c12_extra.replay", "key": key, "tier": tier, "obligation": oid, "verifier_output": what}})
    return {"evaluations": n, "distinct": n, "violations": violations,
            "bounded": [{"function": "cohdl._core._context:Entity.__init_subclass__ (+ emitted entity header)", "case": "inheritance shapes", "evaluations": n, "exhaustive_within_bound": True,
                         "bound": "base with 1-2 own ports, two sibling derived classes adding 0-2 ports each (both orders), one second-level class; header compiled for " + ("every shape" if tier != "quick" else "every fourth shape")}]}


def replay(payload):
    r = interface_sweep(payload.get("tier", "quick"), 0)
    hit = [v for v in r["violations"] if v["key"] == payload["key"]]
    return {"reproduced": bool(hit), "detail": hit[0]["solver"] if hit else "declared and emitted interfaces agree on the whole bound"}
