"""C20 extras.

mask_dataflow  (mechanical, exhaustive over the source): every implementation on the bus write
    path of cohdl/std/reg/reg.py that receives the byte-strobe mask either applies it
    (mask.apply / mask.as_vector), hands it on to the next stage, or is a stub that stores nothing.
    A stage that DROPS the mask cannot update 'exactly the strobed bytes'.
mask_sweep  (bounded stand-in): stretch(strb, k) and Mask.apply / apply_mask executed natively:
    every result bit is the new bit where its byte is strobed and the old bit otherwise.
"""

from __future__ import annotations

import ast
import itertools
import os

from pyvc import REPO

REG = "cohdl/std/reg/reg.py"
WRITE_PATH = {"_basic_write_", "_on_write_", "_on_write_relative_", "_cohdlstd_impl_write"}


def write_path_functions():
    with open(os.path.join(REPO, REG)) as f:
        tree = ast.parse(f.read())
    out = []
    for cls in [n for n in tree.body if isinstance(n, ast.ClassDef)]:
        for fn in [n for n in cls.body if isinstance(n, (ast.FunctionDef, ast.AsyncFunctionDef))]:
            if fn.name in WRITE_PATH:
                params = [a.arg for a in fn.args.args]
                if "mask" in params:
                    out.append((cls.name, fn))
    return out


def classify(fn):
    """how the function treats its `mask` parameter"""
    uses = [n for n in ast.walk(fn) if isinstance(n, ast.Name) and n.id == "mask" and isinstance(n.ctx, ast.Load)]
    body = [s for s in fn.body if not (isinstance(s, ast.Expr) and isinstance(s.value, ast.Constant))]
    if not uses:
        stub = all(isinstance(s, (ast.Pass, ast.Raise)) or (isinstance(s, ast.Return) and (s.value is None or isinstance(s.value, ast.Constant))) for s in body)
        return "stub" if stub else "dropped"
    applied = any(isinstance(n, ast.Attribute) and isinstance(n.value, ast.Name) and n.value.id == "mask" and n.attr in ("apply", "as_vector") for n in ast.walk(fn))
    passed = any(isinstance(n, ast.Call) and any(isinstance(a, ast.Name) and a.id == "mask" for a in list(n.args) + [k.value for k in n.keywords]) for n in ast.walk(fn))
    return "applied" if applied else "passed-on" if passed else "dropped"


def mask_dataflow(tier="quick", seed=0):
    fns = write_path_functions()
    obligations = discharged = 0
    violations = []
    samples = []
    for cls, fn in fns:
        obligations += 1
        how = classify(fn)
        samples.append({"function": f"{cls}.{fn.name}", "mask": how})
        if how != "dropped":
            discharged += 1
            continue
        key = f"{cls}.{fn.name}-drops-the-strobe-mask"
        oid = f"C20/mask_dataflow[{cls}.{fn.name}]"
        violations.append({
            "kind": "custom", "counted": True, "qual": "<C20 mask_dataflow>", "case": f"{cls}.{fn.name}", "oid": oid, "check": "mask_dataflow", "key": key,
            "assignment": {"function": f"{REG}:{cls}.{fn.name}", "line": fn.lineno}, "solver": {"what": f"{cls}.{fn.name} receives the byte-strobe mask and neither applies it nor hands it on"}, "reproduced": True,
            "replay_payload": {"property": "C20", "custom": "contracts.c20_extra.replay_register_ignores_strobes" if cls == "Register" else "contracts.c20_extra.replay_dataflow", "cls": cls, "fn": fn.name, "obligation": oid,
                               "verifier_output": f"{cls}.{fn.name} (line {fn.lineno}) drops its mask parameter: a write through it cannot be limited to the strobed bytes"},
        })
    if obligations == 0:
        violations.append({"kind": "custom", "counted": True, "qual": "<C20 mask_dataflow>", "case": "no-functions", "oid": "C20/mask_dataflow[none]", "check": "mask_dataflow", "key": "no write path found",
                           "assignment": {}, "solver": {"what": "no write-path function found: the enumeration is vacuous"}, "reproduced": True, "replay_payload": {"property": "C20", "obligation": "C20/mask_dataflow[none]", "verifier_output": "vacuous"}})
    return {"obligations": obligations, "discharged": discharged, "violations": violations, "samples": samples[:12],
            "functions": {"bus write path": {"function": f"{REG} _basic_write_/_on_write_/_on_write_relative_/_cohdlstd_impl_write", "contract": "enumerated", "cases": [f"{len(fns)} implementations"]}},
            "coverage": {"write_path_functions": len(fns), "exhaustive": True}}


def replay_dataflow(payload):
    for cls, fn in write_path_functions():
        if cls == payload["cls"] and fn.name == payload["fn"]:
            return {"reproduced": classify(fn) == "dropped", "detail": f"{cls}.{fn.name}: mask is {classify(fn)}"}
    return {"reproduced": False, "detail": "function no longer present"}


_REG_DESIGN = '''
from __future__ import annotations
import re
from cohdl import std
from cohdl.std.reg.reg import reg32
from cohdl.std.axi import axi4_light as axi

class RegMem(reg32.Register):
    lo: reg32.MemField[15:0]
    hi: reg32.MemField[31:16]

class Top(axi.addr_map_entity()):
    word_0: reg32.MemWord[0x00]
    reg_mem: RegMem[0x10]

text = std.VhdlCompiler.to_string(Top)
lines = [l.strip() for l in text.split("\\n")]
data_alias = [l.split(":=")[0].strip() for l in lines if l.endswith(":= axi_wdata;")]
field_writes = [l for l in lines if "<= std_logic_vector(" in l and any(a + "(" in l for a in data_alias)]
print("DATA_ALIAS", data_alias)
for l in field_writes: print("FIELD_WRITE", l)
'''


def replay_register_ignores_strobes(payload):
    """compile a register with two memory fields behind the AXI4-Lite slave: the fields are assigned straight from
    the write data (no term of the strobe mask), so a write with wstrb = "0011" also overwrites bits 31..16"""
    from contracts.c06_extra import _run_design

    rc, out = _run_design(_REG_DESIGN)
    writes = [l for l in out.split("\n") if l.startswith("FIELD_WRITE")]
    direct = [l for l in writes if " and " not in l and " or " not in l]
    return {"reproduced": rc == 0 and len(direct) >= 2, "detail": "\n".join(writes)[-400:] or out[-300:]}


def field_kinds(tier="quick", seed=0):
    """mechanical: Register._basic_write_ stores the written value into EVERY kind of memory field.
    Memory field kinds = the classes Mem*Field of reg.py (fields holding a value written from the bus);
    each must occur in the isinstance test of the update loop and in the 'register contains no memory' test."""
    with open(os.path.join(REPO, REG)) as f:
        tree = ast.parse(f.read())
    mem_classes = sorted(n.name for n in tree.body if isinstance(n, ast.ClassDef) and n.name.startswith("Mem") and n.name.endswith("Field"))
    reg_cls = [n for n in tree.body if isinstance(n, ast.ClassDef) and n.name == "Register"]
    fn = [n for n in reg_cls[0].body if isinstance(n, ast.AsyncFunctionDef) and n.name == "_basic_write_"][0] if reg_cls else None
    tests = []
    if fn is not None:
        for n in ast.walk(fn):
            if isinstance(n, ast.Call) and isinstance(n.func, ast.Name) and n.func.id == "isinstance" and len(n.args) == 2 and isinstance(n.args[1], ast.Tuple):
                tests.append((n.lineno, {e.id for e in n.args[1].elts if isinstance(e, ast.Name)}))
    # the update test is the one inside the loop over the fields that assigns `field <<= ...`
    update = [names for ln, names in tests if "FlagField" not in names]
    guard = [names for ln, names in tests if "FlagField" in names]
    obligations = discharged = 0
    violations = []
    for cls in mem_classes:
        for what, sets in (("stored by the update loop", update), ("counted as memory by the no-memory guard", guard)):
            obligations += 1
            if sets and all(cls in s for s in sets):
                discharged += 1
            else:
                key = f"{cls}-not-{what.split()[0]}"
                oid = f"C20/field_kinds[{cls}:{what}]"
                violations.append({"kind": "custom", "counted": True, "qual": "<C20 field_kinds>", "case": cls, "oid": oid, "check": "field_kinds", "key": key, "assignment": {"class": cls}, "solver": {"what": f"{cls} is not {what} of Register._basic_write_"}, "reproduced": True,
                                   "replay_payload": {"property": "C20", "custom": "contracts.c20_extra.replay_field_kinds", "cls": cls, "obligation": oid, "verifier_output": f"fields of kind {cls} are not {what}: a bus write never reaches them"}})
    if not mem_classes or fn is None:
        obligations += 1
        violations.append({"kind": "custom", "counted": True, "qual": "<C20 field_kinds>", "case": "vacuous", "oid": "C20/field_kinds[vacuous]", "check": "field_kinds", "key": "vacuous", "assignment": {}, "solver": {"what": "no memory field classes / no Register._basic_write_ found"}, "reproduced": True,
                           "replay_payload": {"property": "C20", "obligation": "C20/field_kinds[vacuous]", "verifier_output": "vacuous enumeration"}})
    return {"obligations": obligations, "discharged": discharged, "violations": violations, "samples": [{"memory_field_classes": mem_classes}], "coverage": {"memory_field_classes": len(mem_classes), "exhaustive": True}}


_SFIELD_DESIGN = '''
from __future__ import annotations
from cohdl import std
from cohdl.std.reg.reg import reg32
from cohdl.std.axi import axi4_light as axi

class RegS(reg32.Register):
    u: reg32.MemUField[15:0]
    s: reg32.MemSField[31:16]

class Top(axi.addr_map_entity()):
    reg_s: RegS[0x00]

text = std.VhdlCompiler.to_string(Top)
lines = [l.strip() for l in text.split("\\n")]
data_alias = [l.split(":=")[0].strip() for l in lines if l.endswith(":= axi_wdata;")]
for l in lines:
    if "<=" in l and any(a + "(" in l for a in data_alias): print("FIELD_WRITE", l)
'''


def replay_field_kinds(payload):
    from contracts.c06_extra import _run_design

    rc, out = _run_design(_SFIELD_DESIGN)
    writes = [l for l in out.split("\n") if l.startswith("FIELD_WRITE")]
    return {"reproduced": rc == 0 and len(writes) < 2, "detail": ("\n".join(writes) or out)[-400:]}


# ---- bounded: stretch + Mask.apply ---------------------------------------------------------------------------------------
def mask_sweep(tier="quick", seed=0):
    from cohdl import BitVector, Null, Full
    from cohdl.std import _core_utility as CU

    def s_of(v):
        v = v._value if hasattr(v, "_value") and hasattr(v, "_root") else v
        return str(v.bitvector) if hasattr(v, "bitvector") else str(v)

    n = 0
    fails = {}
    for nbytes, k in ((1, 2), (2, 2), (2, 3), (2, 8), (4, 8)) if tier != "quick" else ((1, 2), (2, 2), (2, 8), (4, 8)):
        w = nbytes * k
        if w <= 6:
            values = ["".join(t) for t in itertools.product("01", repeat=w)]
        else:
            pats = ["0" * w, "1" * w, ("10" * w)[:w], ("01" * w)[:w], ("1100" * w)[:w], ("0110100111000101" * 3)[:w]]
            values = pats
        for strb in ["".join(t) for t in itertools.product("01", repeat=nbytes)]:
            m = CU.stretch(BitVector[nbytes](strb), k)
            n += 1
            want_mask = "".join(ch * k for ch in strb)
            if s_of(m) != want_mask:
                fails.setdefault("stretch", f"stretch({strb}, {k}) = {s_of(m)}, expected {want_mask}")
                continue
            for old, new in itertools.product(values, values):
                n += 1
                r = CU.Mask(m).apply(BitVector[w](old), BitVector[w](new))
                want = "".join(nb if mb == "1" else ob for ob, nb, mb in zip(old, new, want_mask))
                if s_of(r) != want:
                    fails.setdefault("Mask.apply", f"Mask({want_mask}).apply({old}, {new}) = {s_of(r)}, expected {want}")
        for old, new in itertools.product(values[:4], values[:4]):
            n += 2
            if s_of(CU.Mask(Null).apply(BitVector[w](old), BitVector[w](new))) != old:
                fails.setdefault("Mask(Null)", f"Mask(Null).apply({old}, {new}) is not old")
            if s_of(CU.Mask(Full).apply(BitVector[w](old), BitVector[w](new))) != new:
                fails.setdefault("Mask(Full)", f"Mask(Full).apply({old}, {new}) is not new")
    violations = []
    for key, what in sorted(fails.items()):
        oid = f"C20/mask-sweep[{key}]#bounded"
        violations.append({"kind": "custom", "qual": "<C20 mask sweep>", "case": key, "oid": oid, "check": "mask_sweep", "key": key, "assignment": {"helper": key}, "solver": {"what": what}, "reproduced": True,
                           "replay_payload": {"property": "C20", "custom": "contracts.c20_extra.replay_sweep", "key": key, "tier": tier, "obligation": oid, "verifier_output": what}})
    return {"evaluations": n, "distinct": n, "violations": violations,
            "bounded": [{"function": "std.stretch / std.Mask.apply / std.apply_mask", "case": "byte strobes", "evaluations": n, "exhaustive_within_bound": True, "bound": "1-4 bytes, 2/3/8 bits per byte; all strobes; all words up to 6 bits, 6 patterns beyond"}]}


def replay_sweep(payload):
    r = mask_sweep(payload.get("tier", "quick"), 0)
    hit = [v for v in r["violations"] if v["key"] == payload["key"]]
    return {"reproduced": bool(hit), "detail": hit[0]["solver"] if hit else "masking agrees with the bit-wise definition"}
