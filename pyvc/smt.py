"""Second back end: cvc5 on the SMT-LIB2 text z3 exports."""

from __future__ import annotations

import os
import subprocess
import tempfile


def cvc5_check(smt2_text: str, timeout_ms: int) -> str:
    """-> 'sat' | 'unsat' | 'unknown'"""
    fd, path = tempfile.mkstemp(suffix=".smt2", prefix="pyvc_")
    try:
        with os.fdopen(fd, "w") as f:
            f.write("(set-logic ALL)\n")
            f.write(smt2_text)
        try:
            out = subprocess.run(
                ["/usr/bin/cvc5", "--lang=smt2", f"--tlimit={timeout_ms}", "--nl-ext-tplanes", path],
                capture_output=True,
                text=True,
                timeout=timeout_ms / 1000 + 5,
            )
        except (subprocess.TimeoutExpired, FileNotFoundError):
            return "unknown"
        first = out.stdout.strip().split("\n")[0] if out.stdout.strip() else ""
        if first in ("sat", "unsat"):
            return first
        return "unknown"
    finally:
        try:
            os.unlink(path)
        except OSError:
            pass
