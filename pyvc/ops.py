"""Operators, subscripts, iteration, text conversion."""

from __future__ import annotations

import ast
import types

import z3

from . import sym
from .values import (
    BoundMethod,
    Closure,
    FloatDiv,
    Opaque,
    SCls,
    SFmt,
    SObj,
    SRepeat,
    TextOf,
    contains_symbolic,
)

_MISSING = None  # set at import end


def _missing():
    from .interp import _MISSING as M

    return M


BIN_DUNDER = {
    ast.Add: ("__add__", "__radd__", "__iadd__"),
    ast.Sub: ("__sub__", "__rsub__", "__isub__"),
    ast.Mult: ("__mul__", "__rmul__", "__imul__"),
    ast.Div: ("__truediv__", "__rtruediv__", "__itruediv__"),
    ast.FloorDiv: ("__floordiv__", "__rfloordiv__", "__ifloordiv__"),
    ast.Mod: ("__mod__", "__rmod__", "__imod__"),
    ast.Pow: ("__pow__", "__rpow__", "__ipow__"),
    ast.LShift: ("__lshift__", "__rlshift__", "__ilshift__"),
    ast.RShift: ("__rshift__", "__rrshift__", "__irshift__"),
    ast.BitAnd: ("__and__", "__rand__", "__iand__"),
    ast.BitOr: ("__or__", "__ror__", "__ior__"),
    ast.BitXor: ("__xor__", "__rxor__", "__ixor__"),
    ast.MatMult: ("__matmul__", "__rmatmul__", "__imatmul__"),
}

CMP_DUNDER = {
    ast.Eq: ("__eq__", "__eq__"),
    ast.NotEq: ("__ne__", "__ne__"),
    ast.Lt: ("__lt__", "__gt__"),
    ast.Gt: ("__gt__", "__lt__"),
    ast.LtE: ("__le__", "__ge__"),
    ast.GtE: ("__ge__", "__le__"),
}


def int_binop(it, op, a, b, node):
    a, b = sym.to_int(a), sym.to_int(b)
    if op is ast.Add:
        return a + b
    if op is ast.Sub:
        return a - b
    if op is ast.Mult:
        return a * b
    if op is ast.FloorDiv or op is ast.Mod:
        if not it.truth(sym.Not(sym.eq(b, 0)), node):
            it.raise_(ZeroDivisionError, node=node)
        return sym.pydiv(a, b) if op is ast.FloorDiv else sym.pymod(a, b)
    if op is ast.Div:
        if not it.truth(sym.Not(sym.eq(b, 0)), node):
            it.raise_(ZeroDivisionError, node=node)
        return FloatDiv(a, b)
    if op is ast.Pow:
        if isinstance(a, int) and isinstance(b, int):
            return a**b if b >= 0 else it.outside("negative power", node)
        if isinstance(a, int) and a == 2:
            if not it.truth(sym.to_z3(b) >= 0, node):
                it.outside("2**negative (float)", node)
            return sym.pow2(b)
        if isinstance(b, int) and 0 <= b <= 4:
            r = 1
            for _ in range(b):
                r = r * a
            return r
        it.outside("general ** on symbolic ints", node)
    if op is ast.LShift or op is ast.RShift:
        if not it.truth(sym.to_z3(b) >= 0 if sym.is_sym(b) else b >= 0, node):
            it.raise_(ValueError, "negative shift count", node=node)
        return sym.shl(a, b) if op is ast.LShift else sym.shr(a, b)
    if op is ast.BitAnd:
        return sym.int_and(a, b)
    if op is ast.BitOr:
        return sym.int_or(a, b)
    if op is ast.BitXor:
        return sym.int_xor(a, b)
    it.outside(f"int operator {op.__name__}", node)


def str_term(x):
    """term of sort Str for a symbolic / concrete string or str(int)"""
    from .values import SStr

    if isinstance(x, SStr):
        return x.term
    if isinstance(x, str):
        if x.isdigit() and str(int(x)) == x:
            return sym.S_NUM(z3.IntVal(int(x)))  # str(n) of a concrete n
        import re

        m = re.match(r"^(.*[^0-9])(0|[1-9][0-9]*)$", x)
        if m:
            # "sig12" is the concatenation of "sig" and str(12) (a fact about strings)
            return sym.S_CAT(sym.str_lit(m.group(1)), sym.S_NUM(z3.IntVal(int(m.group(2)))))
        return sym.str_lit(x)
    if isinstance(x, SFmt) and len(x.parts) == 1 and isinstance(x.parts[0], TextOf) and sym.is_intlike(x.parts[0].value):
        return sym.S_NUM(sym.to_z3(sym.to_int(x.parts[0].value)))
    return None


def bool_binop(it, op, a, b, node):
    """& | ^ on two bools stays bool"""
    if op is ast.BitAnd:
        return sym.And(a, b)
    if op is ast.BitOr:
        return sym.Or(a, b)
    if op is ast.BitXor:
        return sym.Not(sym.eq(a, b))
    return None


def _is_bool(x):
    return isinstance(x, (bool, z3.BoolRef))


def binop(it, op, a, b, node, inplace=False):
    M = _missing()
    if sym.is_intlike(a) and sym.is_intlike(b):
        if _is_bool(a) and _is_bool(b) and op in (ast.BitAnd, ast.BitOr, ast.BitXor):
            return bool_binop(it, op, a, b, node)
        return int_binop(it, op, a, b, node)
    # uninterpreted strings / sets of names
    from .values import SStr, SSet

    def _numtext(x):
        return isinstance(x, SFmt) and len(x.parts) == 1 and isinstance(x.parts[0], TextOf) and sym.is_intlike(x.parts[0].value)

    if (isinstance(a, SStr) or isinstance(b, SStr) or (_numtext(b) and isinstance(a, str)) or (_numtext(a) and isinstance(b, str))) and op is ast.Add:
        ta, tb = str_term(a), str_term(b)
        if ta is not None and tb is not None:
            return SStr(sym.S_CAT(ta, tb))
    if isinstance(a, SSet) and isinstance(b, SSet) and op in (ast.BitOr, ast.BitAnd, ast.Sub):
        t = {ast.BitOr: z3.SetUnion, ast.BitAnd: z3.SetIntersect, ast.Sub: z3.SetDifference}[op](a.term, b.term)
        if inplace:
            a.term = t  # s |= t mutates the set object (aliases see it)
            return a
        return SSet(t)
    if isinstance(a, SSet) and isinstance(b, (set, frozenset)) and op is ast.BitOr:
        # union with a concrete Python set of names (element by element)
        t = a.term
        for x in sorted(b, key=repr):
            xt = str_term(x)
            if xt is None:
                it.outside("union of a set of names with a non-string element", node)
            t = z3.SetAdd(t, xt)
        if inplace:
            a.term = t
            return a
        return SSet(t)
    # text
    if isinstance(a, (str, SFmt)) and isinstance(b, (str, SFmt)) and op is ast.Add:
        if isinstance(a, str) and isinstance(b, str):
            return a + b
        return SFmt([a, b])
    if isinstance(a, str) and sym.is_symint(b) and op is ast.Mult:
        return SFmt([SRepeat(a, b)])
    if isinstance(b, str) and sym.is_symint(a) and op is ast.Mult:
        return SFmt([SRepeat(b, a)])
    if isinstance(a, Opaque) or isinstance(b, Opaque):
        return Opaque(f"binop.{op.__name__}", a, b)
    if isinstance(a, FloatDiv) or isinstance(b, FloatDiv):
        it.outside("float arithmetic", node)
    fwd, rev, inp = BIN_DUNDER[op]
    a_sym = isinstance(a, (SObj, SCls))
    b_sym = isinstance(b, (SObj, SCls))
    if not a_sym and not b_sym:
        if isinstance(a, (list, tuple)) and isinstance(b, (list, tuple)) and op is ast.Add:
            return a + b
        if isinstance(a, (set, frozenset, dict)) and not contains_symbolic(a) and not contains_symbolic(b):
            return _native_binop(it, op, a, b, node)
        if contains_symbolic(a) or contains_symbolic(b):
            if isinstance(a, (list, tuple)) and isinstance(b, int) and op is ast.Mult:
                return a * b
            it.outside(f"operator {op.__name__} on {type(a).__name__},{type(b).__name__}", node)
        # concrete objects of repo classes: dispatch through interpreted dunders
        ra = _repo_dunder(it, a, inp if inplace else fwd) or _repo_dunder(it, a, fwd)
        if ra is None and _repo_dunder(it, b, rev) is None:
            return _native_binop(it, op, a, b, node)
    # data-model dispatch
    names = ([inp] if inplace else []) + [fwd]
    # CPython: if type(b) is a proper subclass of type(a) and overrides the
    # reflected method, it is tried first
    tried_reflected_first = False
    if a_sym and b_sym and isinstance(a, SObj) and isinstance(b, SObj):
        ka, kb = a.kind, b.kind
        if kb is not ka and issubclass(kb, ka):
            rb, ob = it.static_lookup(kb, rev)
            ra_, oa = it.static_lookup(ka, rev)
            if rb is not M and rb is not ra_:
                r = it.call(it.bind(rb, b, ob), [a], {}, node)
                tried_reflected_first = True
                if r is not NotImplemented:
                    return r
    for nm in names:
        m = _find_dunder(it, a, nm)
        if m is not None:
            r = _call_dunder(it, m, [b], node)
            if r is not NotImplemented:
                return r
    if not tried_reflected_first and not _same_type(it, a, b):
        m = _find_dunder(it, b, rev)
        if m is not None:
            r = _call_dunder(it, m, [a], node)
            if r is not NotImplemented:
                return r
    it.raise_(TypeError, f"unsupported operand types for {op.__name__}", node=node)


def _same_type(it, a, b):
    if isinstance(a, SObj) and isinstance(b, SObj):
        # conservative: parametrised classes of different (symbolic) width are
        # different types, so the reflected method is tried (as CPython does)
        return a.cls is b.cls
    if isinstance(a, SObj) or isinstance(b, SObj):
        return False
    return type(a) is type(b)


def _repo_dunder(it, obj, name):
    if sym.is_sym(obj) or isinstance(obj, (SObj, SCls, Opaque, SFmt)):
        return None
    raw = None
    for k in type(obj).__mro__:
        if name in k.__dict__:
            raw = k.__dict__[name]
            break
    if isinstance(raw, types.FunctionType) and it.is_repo_function(raw):
        return BoundMethod(raw, obj)
    return None


def _find_dunder(it, obj, name):
    M = _missing()
    if isinstance(obj, SObj):
        m = it.lookup_special(obj, name)
        return None if m is M else m
    if isinstance(obj, SCls):
        raw, owner = it.static_lookup(type(obj.kind), name)
        if raw is M or owner is type or owner is object:
            return None
        return BoundMethod(raw, obj)
    if sym.is_sym(obj) or isinstance(obj, (int, bool)):
        return None  # int methods return NotImplemented for non-ints
    if isinstance(obj, (Opaque, SFmt, Closure, BoundMethod, FloatDiv)):
        return None
    r = _repo_dunder(it, obj, name)
    if r is not None:
        return r
    if hasattr(type(obj), name):
        fn = getattr(obj, name)

        def native(*args):
            if contains_symbolic(list(args)):
                return NotImplemented
            return fn(*args)

        return _Native(native)
    return None


class _Native:
    def __init__(self, fn):
        self.fn = fn


def _native_binop(it, op, a, b, node):
    import operator

    table = {
        ast.Add: operator.add,
        ast.Sub: operator.sub,
        ast.Mult: operator.mul,
        ast.Div: operator.truediv,
        ast.FloorDiv: operator.floordiv,
        ast.Mod: operator.mod,
        ast.Pow: operator.pow,
        ast.LShift: operator.lshift,
        ast.RShift: operator.rshift,
        ast.BitAnd: operator.and_,
        ast.BitOr: operator.or_,
        ast.BitXor: operator.xor,
        ast.MatMult: operator.matmul,
    }
    return it.native_call(table[op], [a, b], {}, node)


def unaryop(it, op, v, node):
    M = _missing()
    if op is ast.Not:
        if isinstance(v, z3.BoolRef):
            return z3.Not(v)
        return not it.truth(v, node)
    if sym.is_intlike(v):
        x = sym.to_int(v)
        if op is ast.USub:
            return -x
        if op is ast.UAdd:
            return x
        if op is ast.Invert:
            return -x - 1
    if isinstance(v, Opaque):
        return Opaque(f"unary.{op.__name__}", v)
    name = {ast.USub: "__neg__", ast.UAdd: "__pos__", ast.Invert: "__invert__"}[op]
    if isinstance(v, SObj):
        m = it.lookup_special(v, name)
        if m is M:
            it.raise_(TypeError, f"bad operand for unary {name}", node=node)
        return it.call(m, [], {}, node)
    m = _repo_dunder(it, v, name)
    if m is not None:
        return it.call(m, [], {}, node)
    import operator

    return it.native_call({ast.USub: operator.neg, ast.UAdd: operator.pos, ast.Invert: operator.invert}[op], [v], {}, node)


def identical(it, a, b):
    """a is b"""
    if a is b:
        return True
    if isinstance(a, (SCls, type)) and isinstance(b, (SCls, type)):
        return it.same_class(a, b)
    if sym.is_intlike(a) and sym.is_intlike(b) and (sym.is_sym(a) or sym.is_sym(b)):
        if _is_bool(a) != _is_bool(b):
            return False
        return sym.eq(a, b)
    if isinstance(a, bool) and isinstance(b, bool):
        return a == b
    if isinstance(a, int) and isinstance(b, int) and not isinstance(a, bool) and not isinstance(b, bool):
        return a == b  # assumption: ints compared by value (small-int caching not modelled)
    if isinstance(a, str) and isinstance(b, str):
        return a == b
    return False


def compare(it, op, a, b, node):
    if op is ast.Is:
        return identical(it, a, b)
    if op is ast.IsNot:
        return sym.Not(identical(it, a, b))
    if op is ast.In or op is ast.NotIn:
        r = contains(it, b, a, node)
        return r if op is ast.In else sym.Not(r)
    if op in (ast.Eq, ast.NotEq) and (type(a).__name__ == "SStr" or type(b).__name__ == "SStr"):
        ta, tb = str_term(a), str_term(b)
        if ta is None or tb is None:
            return op is ast.NotEq
        return (ta == tb) if op is ast.Eq else (ta != tb)
    if sym.is_intlike(a) and sym.is_intlike(b):
        if op in (ast.Eq, ast.NotEq):
            r = sym.eq(a, b)
            return r if op is ast.Eq else sym.Not(r)
        x, y = sym.to_z3(sym.to_int(a)), sym.to_z3(sym.to_int(b))
        if not sym.is_sym(a) and not sym.is_sym(b):
            x, y = sym.to_int(a), sym.to_int(b)
        if op is ast.Lt:
            return x < y
        if op is ast.Gt:
            return x > y
        if op is ast.LtE:
            return x <= y
        if op is ast.GtE:
            return x >= y
    if isinstance(a, Opaque) or isinstance(b, Opaque):
        return Opaque(f"cmp.{op.__name__}", a, b)
    fwd, rev = CMP_DUNDER[op]
    a_sym = isinstance(a, (SObj, SCls, SFmt)) or sym.is_sym(a)
    b_sym = isinstance(b, (SObj, SCls, SFmt)) or sym.is_sym(b)
    if not a_sym and not b_sym and not contains_symbolic(a) and not contains_symbolic(b):
        ra = _repo_dunder(it, a, fwd)
        rb = _repo_dunder(it, b, rev)
        if ra is None and rb is None:
            import operator

            table = {ast.Eq: operator.eq, ast.NotEq: operator.ne, ast.Lt: operator.lt, ast.Gt: operator.gt, ast.LtE: operator.le, ast.GtE: operator.ge}
            return it.native_call(table[op], [a, b], {}, node)
    if isinstance(a, (tuple, list)) and isinstance(b, (tuple, list)) and op in (ast.Eq, ast.NotEq):
        if type(a) is not type(b) or len(a) != len(b):
            return op is ast.NotEq
        r = sym.And(*[_as_cond(it, compare(it, ast.Eq, x, y, node), node) for x, y in zip(a, b)])
        return r if op is ast.Eq else sym.Not(r)
    if isinstance(a, (SFmt, str)) and isinstance(b, (SFmt, str)) and op in (ast.Eq, ast.NotEq):
        # structured text with opaque pieces.  The same pieces in the same order are the same text.  Otherwise the
        # answer is only known under the case flag `opaque_texts_distinct` (the shape states that different opaque
        # pieces stand for different texts, e.g. the literals of different constants); without it: outside the subset.
        pa = a.parts if isinstance(a, SFmt) else [a]
        pb = b.parts if isinstance(b, SFmt) else [b]

        def same_piece(x, y):
            if isinstance(x, str) or isinstance(y, str):
                return isinstance(x, str) and isinstance(y, str) and x == y
            if isinstance(x, Opaque) and isinstance(y, Opaque):
                return x is y or (x.tag == y.tag and len(x.deps) == len(y.deps) and all(p is q for p, q in zip(x.deps, y.deps)))
            return x is y

        same = len(pa) == len(pb) and all(same_piece(x, y) for x, y in zip(pa, pb))
        if same:
            return op is ast.Eq
        if getattr(it, "opaque_texts_distinct", False) and all(isinstance(p, (str, Opaque)) for p in pa + pb):
            return op is ast.NotEq
        it.outside("comparison of symbolic text", node)
    if isinstance(a, (SFmt, str)) and isinstance(b, (SFmt, str)):
        it.outside("comparison of symbolic text", node)
    m = _find_dunder(it, a, fwd)
    if m is not None:
        r = _call_dunder(it, m, [b], node)
        if r is not NotImplemented:
            return r
    m = _find_dunder(it, b, rev)
    if m is not None:
        r = _call_dunder(it, m, [a], node)
        if r is not NotImplemented:
            return r
    if op is ast.Eq:
        return identical(it, a, b)
    if op is ast.NotEq:
        return sym.Not(identical(it, a, b))
    it.raise_(TypeError, f"'{op.__name__}' not supported", node=node)


def _call_dunder(it, m, args, node):
    if isinstance(m, _Native):
        return m.fn(*args)
    return it.call(m, args, {}, node)


def _as_cond(it, v, node):
    if isinstance(v, (bool, z3.BoolRef)):
        return v
    return it.truth(v, node)


def contains(it, container, item, node):
    from .values import SSet

    if isinstance(container, SSet) and sym.is_intlike(item):
        return z3.IsMember(sym.to_z3(sym.to_int(item)), container.term)
    if isinstance(container, SSet):
        t = str_term(item)
        if t is None:
            it.outside("membership of a non-string in a set of names", node)
        return z3.IsMember(t, container.term)
    if isinstance(container, dict) and isinstance(item, (SObj, SCls)):
        if type(container) is not dict:
            return item in container  # e.g. IdMap: keyed by id(), decided by the real __contains__
        return any(k is item for k in container)  # identity-keyed lookup
    if isinstance(container, (tuple, list)):
        conds = []
        for x in container:
            i = identical(it, item, x)
            if i is True:
                return True
            e = compare(it, ast.Eq, item, x, node) if i is False else sym.Or(i, _as_cond(it, compare(it, ast.Eq, item, x, node), node))
            conds.append(_as_cond(it, e, node))
        return sym.Or(*conds)
    if isinstance(container, (set, frozenset, dict, str, range, types.MappingProxyType)) and not contains_symbolic(item):
        try:
            return item in container
        except TypeError:
            it.raise_(TypeError, "unhashable", node=node)
    if isinstance(container, (set, frozenset)) and sym.is_intlike(item):
        return sym.Or(*[sym.eq(item, x) for x in container if isinstance(x, int)])
    if isinstance(container, dict) and sym.is_intlike(item):
        return sym.Or(*[sym.eq(item, x) for x in container if isinstance(x, int)])
    if isinstance(container, range) and sym.is_intlike(item) and container.step == 1:
        x = sym.to_int(item)
        return sym.And(x >= container.start, x < container.stop)
    if isinstance(container, SObj):
        m = it.lookup_special(container, "__contains__")
        if m is not _missing():
            return it.call(m, [item], {}, node)
    if isinstance(container, Opaque):
        return Opaque("in", container, item)
    it.outside(f"'in' on {type(container).__name__}", node)


def getitem(it, base, key, node):
    M = _missing()
    if isinstance(base, (list, tuple, str)) and not contains_symbolic(key):
        try:
            return base[key]
        except (IndexError, TypeError) as e:
            it.raise_(type(e), node=node)
    if isinstance(base, (list, tuple)) and sym.is_symint(key):
        # select among the concrete spine
        n = len(base)
        for i in range(n):
            if it.truth(sym.Or(sym.eq(key, i), sym.eq(key, i - n)), node):
                return base[i]
        it.raise_(IndexError, node=node)
    if isinstance(base, dict):
        if not contains_symbolic(key):
            try:
                return base[key]
            except KeyError:
                it.raise_(KeyError, key, node=node)
            except TypeError:
                it.raise_(TypeError, "unhashable", node=node)
        if isinstance(key, (SObj, SCls)):
            if type(base) is not dict:
                try:
                    return base[key]  # IdMap: the real identity-keyed lookup
                except KeyError:
                    it.raise_(KeyError, node=node)
            for k, v in base.items():
                if k is key:
                    return v
            it.raise_(KeyError, node=node)
        it.outside("dict lookup with symbolic key", node)
    if isinstance(base, SCls):
        from .interp import SUBSCRIPT_MODELS

        for k, fn in list(getattr(it, "subscript_models", {}).items()) + list(SUBSCRIPT_MODELS.items()):  # case-level models first
            if issubclass(base.kind, k):
                return fn(it, base, key)
        it.outside(f"subscript of {base!r}", node)
    if isinstance(base, type):
        from .interp import SUBSCRIPT_MODELS

        # K[...] inside a function under verification (also the recursive
        # calls of a metaclass __getitem__ itself) goes through the contract
        for k, fn in list(getattr(it, "subscript_models", {}).items()) + list(SUBSCRIPT_MODELS.items()):
            if issubclass(base, k):
                return fn(it, base, key)
        if not contains_symbolic(key):
            try:
                return base[key]
            except Exception as e:
                it.raise_(type(e), node=node)
        it.outside(f"subscript of class {base.__name__} with symbolic key", node)
    if isinstance(base, SObj):
        m = it.lookup_special(base, "__getitem__")
        if m is M:
            it.raise_(TypeError, "not subscriptable", node=node)
        return it.call(m, [key], {}, node)
    if isinstance(base, Opaque):
        return Opaque(f"{base.tag}[]", base, key)
    if isinstance(base, SFmt) and isinstance(key, slice) and key.start is None and key.step is None and isinstance(key.stop, int) and key.stop < 0:
        # text[:-k]: drop k characters of the trailing literal piece
        last = base.parts[-1] if base.parts else None
        if isinstance(last, str) and len(last) >= -key.stop:
            return SFmt(base.parts[:-1] + [last[: key.stop]])
        it.outside("slicing symbolic text", node)
    m = _repo_dunder(it, base, "__getitem__")
    if m is not None:
        return it.call(m, [key], {}, node)
    if not contains_symbolic(key) and not contains_symbolic(base):
        try:
            return base[key]
        except Exception as e:
            it.raise_(type(e), node=node)
    it.outside(f"subscript of {type(base).__name__}", node)


def setitem(it, base, key, value, node):
    if isinstance(base, list) and not contains_symbolic(key):
        try:
            base[key] = value
        except IndexError:
            it.raise_(IndexError, node=node)
        return
    if isinstance(base, dict):
        if contains_symbolic(key) and not isinstance(key, (SObj, SCls)):
            it.outside("dict store with symbolic key", node)
        try:
            base[key] = value
        except TypeError:
            it.raise_(TypeError, "unhashable", node=node)
        return
    if isinstance(base, SObj):
        m = it.lookup_special(base, "__setitem__")
        if m is _missing():
            it.raise_(TypeError, "no item assignment", node=node)
        it.call(m, [key, value], {}, node)
        return
    if isinstance(base, Opaque):
        it.ctx.events.append(("setitem", base.tag))
        return
    it.outside(f"item assignment on {type(base).__name__}", node)


def delitem(it, base, key, node):
    if isinstance(base, (dict, list)) and not contains_symbolic(key):
        try:
            del base[key]
        except (KeyError, IndexError) as e:
            it.raise_(type(e), node=node)
        return
    it.outside("del item", node)


def iterate(it, v, node=None):
    """materialise an iterable as a Python list (concrete spine)"""
    if isinstance(v, (list, tuple)):
        return list(v)
    if isinstance(v, (set, frozenset)):
        if len(v) > 1 and any(isinstance(x, str) for x in v):
            # iteration order of a set of str depends on PYTHONHASHSEED
            it.ctx.events.append(("iter-set-of-str", tuple(sorted(map(str, v)))))
        return list(v)
    if isinstance(v, dict):
        return list(v.keys())
    if isinstance(v, (str, range)):
        return list(v)
    if isinstance(v, (types.GeneratorType, zip, enumerate, map, filter, reversed)) or type(v).__name__ in (
        "dict_keys",
        "dict_values",
        "dict_items",
        "list_iterator",
        "tuple_iterator",
        "list_reverseiterator",
    ):
        return list(v)
    if isinstance(v, SObj):
        m = it.lookup_special(v, "__iter__")
        if m is not _missing():
            return iterate(it, it.call(m, [], {}, node), node)
        it.raise_(TypeError, "not iterable", node=node)
    if isinstance(v, Opaque):
        it.outside(f"iteration over opaque {v.tag}", node)
    if type(v).__name__ == "SymRange":
        # range with symbolic bounds: iterable here only when its LENGTH is concrete
        n = sym.simp(sym.to_int(v.stop) - sym.to_int(v.start))
        if isinstance(n, int) and isinstance(v.step, int) and v.step > 0:
            return [v.start + k * v.step for k in range(max(0, -(-n // v.step)))]
        it.outside("iteration over a range of symbolic length", node)
    m = _repo_dunder(it, v, "__iter__")
    if m is not None:
        return iterate(it, it.call(m, [], {}, node), node)
    try:
        return list(v)
    except TypeError:
        it.raise_(TypeError, "not iterable", node=node)


def to_text(it, x, node=None, how="str"):
    """piece of structured text for str(x) / f'{x}'"""
    if isinstance(x, str):
        return x if how == "str" else repr(x)
    if isinstance(x, SFmt):
        return x
    if isinstance(x, bool):
        return str(x)
    if isinstance(x, int):
        return str(x)
    if sym.is_sym(x):
        s = sym.simp(x)
        if isinstance(s, (int, bool)):
            return str(s)
        return TextOf(s)
    if isinstance(x, SObj):
        m = it.lookup_special(x, "__str__" if how == "str" else "__repr__")
        from .interp import MODELS

        if m is not _missing() and isinstance(m, BoundMethod) and (id(m.fn) in MODELS or id(m.fn) in it.target_ids):
            return to_text(it, it.call(m, [], {}, node), node)
        return TextOf(x, how)
    if isinstance(x, (SCls, Opaque)):
        return TextOf(x, how)
    if contains_symbolic(x):
        return TextOf(x, how)
    try:
        return str(x) if how == "str" else repr(x)
    except Exception:
        return TextOf(x, how)
