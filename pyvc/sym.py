"""Polymorphic helpers: every function works on concrete Python values and on
z3 terms, so that one spec function serves (a) as proof goal / call summary in
the symbolic run, (b) as oracle in the native cross-check and in replays.

Encodings assumed (DESIGN.md 2.2 / 5.2):
  * Python ints are mathematical integers (z3 Int).
  * 2**e, 1<<e go through the uninterpreted `pow2`, axiomatised by ground
    instantiation on the exponent terms that occur on the current path.
  * a // b and a % b have Python floor semantics.
  * int(a / b) on ints is `tfd(a, b)`: uninterpreted, except that it equals the
    exact truncated quotient when |a|,|b| < 2**52.
"""

from __future__ import annotations

import z3

IntS = z3.IntSort()
BoolS = z3.BoolSort()

P2 = z3.Function("pow2", IntS, IntS)
TFD = z3.Function("trunc_fdiv", IntS, IntS, IntS)
BITLEN = z3.Function("bit_length", IntS, IntS)
BITCNT = z3.Function("bit_count", IntS, IntS)
BAND = z3.Function("int_and", IntS, IntS, IntS)
BOR = z3.Function("int_or", IntS, IntS, IntS)
BXOR = z3.Function("int_xor", IntS, IntS, IntS)

# the active path context (set by pyvc.interp.Explorer); None in concrete mode
CUR = None


def is_sym(x) -> bool:
    return isinstance(x, z3.ExprRef)


def is_symint(x) -> bool:
    return isinstance(x, z3.ArithRef)


def is_symbool(x) -> bool:
    return isinstance(x, z3.BoolRef)


def is_intlike(x) -> bool:
    return isinstance(x, (int, z3.ArithRef, z3.BoolRef))


def to_int(x):
    """bool -> int coercion (bool is a subclass of int in Python)"""
    if isinstance(x, z3.BoolRef):
        return z3.If(x, z3.IntVal(1), z3.IntVal(0))
    if isinstance(x, bool):
        return int(x)
    return x


def to_z3(x):
    if isinstance(x, bool):
        return z3.BoolVal(x)
    if isinstance(x, int):
        return z3.IntVal(x)
    return x


def simp(x):
    """simplify; concrete results come back as Python values"""
    if not is_sym(x):
        return x
    s = z3.simplify(x)
    if z3.is_int_value(s):
        return s.as_long()
    if z3.is_true(s):
        return True
    if z3.is_false(s):
        return False
    return s


def And(*xs):
    xs = [x for x in xs]
    if any(x is False for x in xs):
        return False
    xs = [x for x in xs if x is not True]
    if not xs:
        return True
    if len(xs) == 1:
        return xs[0]
    return z3.And(*[to_z3(x) for x in xs])


def Or(*xs):
    if any(x is True for x in xs):
        return True
    xs = [x for x in xs if x is not False]
    if not xs:
        return False
    if len(xs) == 1:
        return xs[0]
    return z3.Or(*[to_z3(x) for x in xs])


def Not(x):
    if isinstance(x, bool):
        return not x
    return z3.Not(x)


def Implies(a, b):
    return Or(Not(a), b)


def Ite(c, a, b):
    if isinstance(c, bool):
        return a if c else b
    a, b = to_z3(to_int(a) if not isinstance(a, (bool, z3.BoolRef)) else a), to_z3(
        to_int(b) if not isinstance(b, (bool, z3.BoolRef)) else b
    )
    return z3.If(c, a, b)


def eq(a, b):
    if not is_sym(a) and not is_sym(b):
        return a == b
    if is_symbool(a) and not is_symbool(b) and not isinstance(b, bool):
        a = to_int(a)
    if is_symbool(b) and not is_symbool(a) and not isinstance(a, bool):
        b = to_int(b)
    if isinstance(a, bool) and is_symint(b):
        a = int(a)
    if isinstance(b, bool) and is_symint(a):
        b = int(b)
    return to_z3(a) == to_z3(b)


def pow2(e):
    """2**e for e >= 0 (callers guard e >= 0)"""
    e = simp(to_int(e))
    if isinstance(e, int):
        return 2**e if e >= 0 else None
    t = P2(e)
    if CUR is not None:
        CUR.note_pow2(e)
    return t


def _is_pow2_term(b):
    return z3.is_app(b) and b.decl().eq(P2)


def pydiv(a, b):
    """Python a // b (b != 0 guarded by caller)"""
    a, b = to_int(a), to_int(b)
    if isinstance(a, int) and isinstance(b, int):
        return a // b
    a, b = to_z3(a), to_z3(b)
    if _is_pow2_term(b):
        # pow2(e) is only ever built for e >= 0 (callers guard), hence positive:
        # z3's div is floor division for a positive divisor
        return a / b
    if z3.is_int_value(b):
        bv = b.as_long()
        if bv > 0:
            return a / b
        return (-a) / z3.IntVal(-bv)
    return z3.If(b > 0, a / b, (-a) / (-b))


def pymod(a, b):
    a, b = to_int(a), to_int(b)
    if isinstance(a, int) and isinstance(b, int):
        return a % b
    if CUR is not None and getattr(CUR, "arith_hints", False) and is_sym(b) and _is_pow2_term(b):
        # proof hint (instance of a proved lemma): a quotient by a modulus m with -m <= a < m is 0 or -1
        from . import lemmas

        CUR.solver.add(lemmas.instance("div-range", [to_z3(a), to_z3(b)]))
        CUR.axioms_used.add("lemma:div-range")
    return to_z3(a) - to_z3(b) * pydiv(a, b)


def truncdiv(a, b):
    """exact integer division truncating toward zero (VHDL '/')"""
    a, b = to_int(a), to_int(b)
    if isinstance(a, int) and isinstance(b, int):
        q = abs(a) // abs(b)
        return q if (a >= 0) == (b >= 0) else -q
    a, b = to_z3(a), to_z3(b)
    absa = z3.If(a >= 0, a, -a)
    absb = z3.If(b >= 0, b, -b)
    q = absa / absb
    return z3.If((a >= 0) == (b >= 0), q, -q)


def truncrem(a, b):
    """VHDL rem: sign of the dividend"""
    a, b = to_int(a), to_int(b)
    if isinstance(a, int) and isinstance(b, int):
        return a - b * truncdiv(a, b)
    return to_z3(a) - to_z3(b) * truncdiv(a, b)


def tfd(a, b):
    """int(a / b): through an IEEE double"""
    a, b = to_int(a), to_int(b)
    if isinstance(a, int) and isinstance(b, int):
        return int(a / b)
    a, b = to_z3(a), to_z3(b)
    t = TFD(a, b)
    if CUR is not None:
        lim = 2**52
        CUR.assume(
            z3.Implies(
                z3.And(a < lim, a > -lim, b < lim, b > -lim, b != 0),
                t == truncdiv(a, b),
            ),
            axiom="fdiv-exact-below-2^52",
        )
    return t


def bit_length(x):
    x = to_int(x)
    if isinstance(x, int):
        return x.bit_length()
    t = BITLEN(x)
    if CUR is not None:
        ax = z3.If(x >= 0, x, -x)
        p = pow2(t)
        # defining inequalities: 2**(n-1) <= |x| < 2**n, n = 0 iff x = 0
        CUR.assume(t >= 0, axiom="bit_length")
        CUR.assume(ax < p, axiom="bit_length")
        CUR.assume(z3.Implies(t >= 1, pow2(t - 1) <= ax), axiom="bit_length")
        CUR.assume((t == 0) == (x == 0), axiom="bit_length")
    return t


def bit_count(x):
    x = to_int(x)
    if isinstance(x, int):
        return x.bit_count()
    t = BITCNT(x)
    if CUR is not None:
        ax = z3.If(x >= 0, x, -x)
        n = bit_length(x)
        CUR.assume(z3.And(t >= 0, t <= n), axiom="bit_count")
        CUR.assume((t == 0) == (x == 0), axiom="bit_count")
        # exactly one bit set  <=>  |x| is a power of two  <=>  |x| == 2**(n-1)
        CUR.assume(
            z3.Implies(x != 0, (t == 1) == (ax == pow2(n - 1))), axiom="bit_count"
        )
    return t


def bit_at(x, k):
    """bit k of x (two's complement, k >= 0): 0 or 1"""
    x, k = to_int(x), to_int(k)
    if isinstance(x, int) and isinstance(k, int):
        return (x >> k) & 1
    return pymod(pydiv(x, pow2(k)), 2)


def absval(x):
    x = to_int(x)
    if isinstance(x, int):
        return abs(x)
    return z3.If(x >= 0, x, -x)


def maxv(a, b):
    a, b = to_int(a), to_int(b)
    if isinstance(a, int) and isinstance(b, int):
        return max(a, b)
    # Python max(a, b) returns a unless b > a
    return z3.If(to_z3(b) > to_z3(a), to_z3(b), to_z3(a))


def minv(a, b):
    a, b = to_int(a), to_int(b)
    if isinstance(a, int) and isinstance(b, int):
        return min(a, b)
    return z3.If(to_z3(b) < to_z3(a), to_z3(b), to_z3(a))


def _match_pow2(t):
    """t == pow2(e) syntactically?  -> e or None"""
    if isinstance(t, int):
        if t > 0 and t & (t - 1) == 0:
            return t.bit_length() - 1
        return None
    if z3.is_app(t) and t.decl().eq(P2):
        return t.arg(0)
    if z3.is_app(t) and t.decl().kind() == z3.Z3_OP_MUL and t.num_args() == 2:
        a, b = t.arg(0), t.arg(1)
        if z3.is_int_value(a) and a.as_long() == 1:
            return _match_pow2(b)
    return None


def _match_pow2_minus_1(t):
    if isinstance(t, int):
        return _match_pow2(t + 1)
    t = z3.simplify(t)
    if z3.is_app(t):
        k = t.decl().kind()
        if k == z3.Z3_OP_SUB and t.num_args() == 2:
            a, b = t.arg(0), t.arg(1)
            if z3.is_int_value(b) and b.as_long() == 1:
                return _match_pow2(a)
        if k == z3.Z3_OP_ADD and t.num_args() == 2:
            a, b = t.arg(0), t.arg(1)
            if z3.is_int_value(a) and a.as_long() == -1:
                return _match_pow2(b)
            if z3.is_int_value(b) and b.as_long() == -1:
                return _match_pow2(a)
    return None


def int_and(a, b):
    a, b = to_int(a), to_int(b)
    if isinstance(a, int) and isinstance(b, int):
        return a & b
    for x, y in ((a, b), (b, a)):
        e = _match_pow2_minus_1(y)
        if e is not None:
            return pymod(x, pow2(e))  # x & (2**e - 1)  ==  x mod 2**e
        e = _match_pow2(y)
        if e is not None:
            return to_z3(pow2(e)) * bit_at(x, e)  # x & 2**e
    if isinstance(b, int) and b == 1:
        return pymod(a, 2)
    if isinstance(a, int) and a == 1:
        return pymod(b, 2)
    return BAND(to_z3(a), to_z3(b))


def int_or(a, b):
    a, b = to_int(a), to_int(b)
    if isinstance(a, int) and isinstance(b, int):
        return a | b
    return BOR(to_z3(a), to_z3(b))


def int_xor(a, b):
    a, b = to_int(a), to_int(b)
    if isinstance(a, int) and isinstance(b, int):
        return a ^ b
    return BXOR(to_z3(a), to_z3(b))


def shl(a, n):
    a, n = to_int(a), to_int(n)
    if isinstance(a, int) and isinstance(n, int):
        return a << n
    if isinstance(a, int) and a == 1:
        return pow2(n)
    return to_z3(a) * to_z3(pow2(n))


def shr(a, n):
    a, n = to_int(a), to_int(n)
    if isinstance(a, int) and isinstance(n, int):
        return a >> n
    return pydiv(a, pow2(n))


def wrap_unsigned(x, w):
    """x mod 2**w"""
    if CUR is not None and getattr(CUR, "arith_hints", False) and (is_sym(x) or is_sym(w)):
        # path-sensitive simplification: where the path condition implies -2**w <= x < 2**w the
        # modulo is x or x + 2**w -- keeps the term linear (no quotient by a symbolic modulus)
        m = pow2(w)
        xz = to_z3(to_int(x))
        if CUR.entails(z3.And(xz >= 0, xz < m)):
            return xz
        if CUR.entails(z3.And(xz >= -m, xz < m)):
            return z3.If(xz < 0, xz + m, xz)
    return pymod(x, pow2(w))


def wrap_signed(x, w):
    """the value in [-2**(w-1), 2**(w-1)) congruent to x mod 2**w"""
    half = pow2(to_int(w) - 1)
    m = pymod(to_int(x) + half, pow2(w))
    return m - half


# ---- uninterpreted strings (names) ----------------------------------------------------
StrS = z3.DeclareSort("Str")
S_LOWER = z3.Function("str_lower", StrS, StrS)
S_STRIP = z3.Function("str_strip_underscores", StrS, StrS)
S_CAT = z3.Function("str_cat", StrS, StrS, StrS)
S_NUM = z3.Function("str_of_int", IntS, StrS)
_lits = {}


def str_lit(s: str):
    """a concrete string as a constant of sort Str (no character-level reasoning)"""
    if s not in _lits:
        _lits[s] = z3.Const(f"lit:{s!r}", StrS)
    return _lits[s]
