"""pyvc - verification-condition generator for a subset of Python, run on the
real source of /repo (see /verif/DESIGN.md section 2)."""

import os

REPO = os.environ.get("COHDL_REPO", "/repo")
VERIF = os.path.dirname(os.path.dirname(os.path.abspath(__file__)))
