"""./check <property> quick|thorough  -- see DESIGN.md section 4 and 8.

exit 0: every obligation discharged, bounded stand-ins and cross-checks passed
exit 1: violation (VIOLATION property=<id> replay=<path> ...)
exit 2: undecided (solver unknown, function moved / outside the subset)
exit 3: checker problem (vacuity guard, canary passed, crash)
"""

from __future__ import annotations

import hashlib
import importlib
import json
import multiprocessing as mp
import os
import random
import sys
import time
import traceback

VERIF = os.path.dirname(os.path.dirname(os.path.abspath(__file__)))
if VERIF not in sys.path:
    sys.path.insert(0, VERIF)

from pyvc import REPO  # noqa: E402


def _load(prop):
    import props

    cfg = props.PROPERTIES[prop]
    for m in cfg["modules"]:
        importlib.import_module(m)
    from pyvc import contracts as C

    C.finalize()
    return cfg


def _work_items(prop):
    from pyvc import contracts as C

    items = []
    for qual, con in C.CONTRACTS.items():
        if prop not in con.props:
            continue
        for i, case in enumerate(con.cases):
            if case.props and prop not in case.props:
                continue
            items.append((qual, i))
    # longest first: the few hard non-linear obligations start immediately
    slow = ("sub", "resize", "__lshift__", "_rem_", "__add__", "_serial", "format_cast")
    items.sort(key=lambda it: 0 if any(h in it[0].split(":")[-1] for h in slow) else 1)
    return items


_G = {}
_custom_memo = {}


def _init_worker(prop, tier, seed, mutate):
    if mutate:
        os.environ["PYVC_MUTATE"] = mutate
    else:
        os.environ.pop("PYVC_MUTATE", None)
    from pyvc import loader

    loader.reset()
    _G["cfg"] = _load(prop)
    _G["prop"] = prop
    _G["tier"] = tier
    _G["seed"] = seed


def _run_item(item):
    """worker: symbolic proof + native cross-check of one contract case"""
    from pyvc import contracts as C
    from pyvc import verify

    qual, idx = item
    tier, seed = _G["tier"], _G["seed"]
    con = C.CONTRACTS[qual]
    case = con.cases[idx]
    out = {"qual": qual, "case": case.name, "status_contract": con.status, "note": case.note}
    try:
        from pyvc import loader

        src = loader.from_code(con.fn.__code__)
        out["func"] = {"ident": src.ident() if src else qual, "sha256": src.sha256 if src else None}
    except Exception as e:
        out["func"] = {"ident": qual, "sha256": None, "error": str(e)}
    timeout = (30000 if tier == "quick" else 120000) * int(getattr(case, "timeout_factor", 1))  # heavy nonlinear cases state a larger budget
    if con.status == "proved":
        try:
            rep = verify.verify_case(con, case, timeout_ms=timeout)
            out["proof"] = {
                "status": rep.status,
                "paths": rep.paths,
                "secs": round(rep.secs, 3),
                "solver_secs": round(rep.solver_secs, 3),
                "detail": rep.detail,
                "obligations": rep.obligations,
                "refutations": [
                    {"oid": r["oid"], "assignment": r["assignment"], "real": str(r["info"].get("real")), "spec": str(r["info"].get("spec")), "goal": r["goal"], "pc": r["info"].get("pc")}
                    for r in rep.refutations[:5]
                ],
                "axioms": sorted(rep.axioms),
            }
        except Exception as e:
            out["proof"] = {"status": "error", "detail": "".join(traceback.format_exception(type(e), e, e.__traceback__))[-2000:], "obligations": [], "refutations": []}
    else:
        out["proof"] = None
    if case.native and not os.environ.get("PYVC_NO_NATIVE"):
        try:
            from contracts.core_models import NS

            rng = random.Random(hash((seed, qual, case.name)) & 0xFFFFFFFF)
            n = (case.n_quick if tier == "quick" else case.n_thorough)
            st = verify.native_case(con, case, n, rng, NS, tier=tier)
            out["native"] = {
                "evaluations": st["evaluations"],
                "distinct": len(st["distinct"]),
                "nontrivial": st.get("nontrivial", len(st["distinct"])),
                "unspecified": st["unspecified"],
                "rejected_both": st["rejected_both"],
                "mismatches": st["mismatches"][:3],
                "exhaustive": st.get("exhaustive", False),
                "bound": st.get("bound", ""),
                "sample": st.get("sample"),
            }
        except Exception as e:
            out["native"] = {"error": "".join(traceback.format_exception(type(e), e, e.__traceback__))[-2000:], "evaluations": 0, "distinct": 0, "mismatches": []}
    else:
        out["native"] = None
    return out


def run_items(prop, tier, seed, items, mutate=None, procs=None):
    procs = procs or min(int(os.environ.get("PYVC_PROCS", "16")), max(1, len(items)))
    # spawn, not fork: z3's timer threads of the parent do not survive a fork
    # and every solver call of a forked worker then becomes very slow
    ctx = mp.get_context("spawn")
    with ctx.Pool(procs, initializer=_init_worker, initargs=(prop, tier, seed, mutate)) as pool:
        return pool.map(_run_item, items, chunksize=1)


# ----------------------------------------------------------------------
def write_replay(prop, name, payload):
    d = os.path.join(VERIF, "replay", prop)
    os.makedirs(d, exist_ok=True)
    safe = "".join(ch if ch.isalnum() or ch in "._-" else "_" for ch in name)[:150]
    path = os.path.join(d, safe + ".py")
    with open(path, "w") as f:
        f.write("#!/usr/bin/env python3-vt\n")
        f.write('"""replay of a failed obligation: runs the real code in /repo on the failing input.\n')
        f.write("usage: python3-vt <this file>   (exit 1 = the failure reproduces)\"\"\"\n")
        f.write("import os, sys\n")
        f.write("sys.path.insert(0, os.path.join(os.path.dirname(os.path.abspath(__file__)), '..', '..'))\n")
        f.write("REPLAY = " + json.dumps(payload, indent=1, default=str).replace(": true", ": True").replace(": false", ": False").replace(": null", ": None") + "\n")
        f.write("from pyvc.replay import main\n")
        f.write("sys.exit(main(REPLAY))\n")
    return os.path.relpath(path, VERIF)


def load_known():
    p = os.path.join(VERIF, "known_findings.json")
    if not os.path.exists(p):
        return {"findings": [], "fixed": []}
    with open(p) as f:
        return json.load(f)


def known_match(known, prop, vio):
    """a violation is known only if property, contract, case and the failing
    input's signature all match a listed finding"""
    for k in known.get("findings", []):
        if k.get("property") != prop:
            continue
        if k.get("contract") and k["contract"] != vio.get("qual"):
            continue
        if k.get("case") and k["case"] != vio.get("case"):
            continue
        if k.get("check") and k["check"] != vio.get("check"):
            continue
        sig = k.get("input")
        if sig is not None:
            asg = vio.get("assignment") or {}
            if not all(asg.get(n) == v for n, v in sig.items()):
                continue
        if k.get("key") and k["key"] != vio.get("key"):
            continue
        return k
    return None


def main(argv=None):
    argv = argv or sys.argv[1:]
    prop = argv[0]
    tier = argv[1] if len(argv) > 1 else os.environ.get("VERIF_TIER", "quick")
    seed = int(os.environ.get("VERIF_SEED", "0"))
    t0 = time.time()
    try:
        rc = _main(prop, tier, seed, t0)
    except SystemExit:
        raise
    except Exception:
        traceback.print_exc()
        print(f"CHECKER-ERROR property={prop}")
        rc = 3
    sys.exit(rc)


def _main(prop, tier, seed, t0):
    from pyvc import replay as RP

    cfg = _load(prop)
    items = _work_items(prop)
    results = run_items(prop, tier, seed, items) if items else []
    t_items = time.time() - t0

    violations = []  # dicts
    undecided = []
    problems = []
    n_obl = n_dis = 0
    backends = {}
    solver_secs = 0.0
    funcs = {}
    samples = []
    native_evals = native_distinct = 0
    bounded = []
    axioms = set()
    paths = 0

    for r in results:
        funcs.setdefault(r["qual"], {"function": r["func"]["ident"], "sha256": r["func"].get("sha256"), "contract": r["status_contract"], "cases": []})
        funcs[r["qual"]]["cases"].append(r["case"])
        p = r["proof"]
        if p is not None:
            paths += p.get("paths", 0)
            solver_secs += p.get("solver_secs", 0.0)
            axioms |= set(p.get("axioms", []))
            for o in p["obligations"]:
                n_obl += 1
                if o["status"] == "discharged":
                    n_dis += 1
                for b in o["backend"]:
                    backends[b] = backends.get(b, 0) + o["vcs"]
                if len(samples) < 6 and o["status"] == "discharged" and o["sample_goal"] not in ("True",):
                    samples.append({"obligation": o["oid"], "vcs": o["vcs"], "goal": o["sample_goal"][:300]})
            if p["status"] == "refuted":
                for ref in p["refutations"][:1]:
                    violations.append({"kind": "obligation", "qual": r["qual"], "case": r["case"], "oid": ref["oid"], "assignment": ref["assignment"], "solver": ref})
            elif p["status"] in ("unknown", "outside"):
                undecided.append(f"{r['qual']}[{r['case']}]: {p['status']} {p.get('detail','')[:300]}")
            elif p["status"] in ("error", "vacuous"):
                problems.append(f"{r['qual']}[{r['case']}]: {p['status']} {p.get('detail','')[:600]}")
        n = r["native"]
        if n is not None:
            if n.get("error"):
                problems.append(f"{r['qual']}[{r['case']}]: native error {n['error'][-400:]}")
            native_evals += n["evaluations"]
            native_distinct += n.get("nontrivial", n["distinct"])
            if r["status_contract"] != "proved":
                bounded.append({"function": r["qual"], "case": r["case"], "evaluations": n["evaluations"], "exhaustive_within_bound": n.get("exhaustive", False), "bound": n.get("bound", "")})
            if n.get("sample") and len(samples) < 10:
                samples.append({"native_case": f"{r['qual']}[{r['case']}]", "input": n["sample"]})
            for mm in n["mismatches"][:1]:
                violations.append({"kind": "native", "qual": r["qual"], "case": r["case"], "oid": f"{r['qual']}[{r['case']}]#native", "assignment": mm["assignment"], "solver": {"real": mm["real"], "spec": mm["spec"]}})

    # extra checks of the property (lemmas, inventories, finite enumerations ...)
    extra_cov = {}
    for fn in cfg.get("extra", []):
        mod, _, name = fn.rpartition(".")
        f = getattr(importlib.import_module(mod), name)
        res = f(tier=tier, seed=seed)
        n_obl += res.get("obligations", 0)
        n_dis += res.get("discharged", 0)
        native_evals += res.get("evaluations", 0)
        native_distinct += res.get("distinct", 0)
        for v in res.get("violations", []):
            violations.append(v)
        undecided.extend(res.get("undecided", []))
        problems.extend(res.get("problems", []))
        samples.extend(res.get("samples", [])[:3])
        bounded.extend(res.get("bounded", []))
        for k, v in res.get("functions", {}).items():
            funcs[k] = v
        extra_cov[name] = res.get("coverage", {})
        for b, c in res.get("backends", {}).items():
            backends[b] = backends.get(b, 0) + c
        solver_secs += res.get("solver_secs", 0.0)

    # vacuity guards
    if n_obl == 0 and cfg.get("level") == "proof":
        problems.append("no obligations generated")
    canary_report = []
    if not violations and not problems:
        for can in cfg.get("canaries", []):
            ok, info = run_canary(prop, tier, seed, can)
            canary_report.append({"canary": can["name"], "refuted_as_required": ok, "info": info})
            if not ok:
                problems.append(f"canary {can['name']} was NOT refuted: engine or contract vacuous ({info})")

    # replay / known findings
    known = load_known()
    reported = []
    known_lines = []
    for v in violations:
        if v["kind"] in ("obligation", "native") and "replay_payload" not in v:
            payload = {"property": prop, "contract": v["qual"], "case": v["case"], "obligation": v["oid"], "assignment": v["assignment"], "verifier_output": v["solver"], "modules": cfg["modules"]}
            try:
                from pyvc import contracts as _C

                _case = [c for c in _C.CONTRACTS[v["qual"]].cases if c.name == v["case"]][0]
                if getattr(_case, "custom_replay", None):
                    payload["custom"] = _case.custom_replay  # e.g. compile a tiny design with the real compiler
                if getattr(_case, "finding_key", None):
                    v["key"] = _case.finding_key  # which documented reason makes this case fail (known findings)
            except Exception:
                pass
            ck = payload.get("custom")
            if ck and ck in _custom_memo:
                repro = _custom_memo[ck]  # one design-level reproduction per documented reason
            else:
                repro = RP.try_reproduce(payload, search=True, seed=seed)
                if ck:
                    _custom_memo[ck] = repro
            payload["reproduced"] = repro["reproduced"]
            payload["assignment"] = repro.get("assignment", payload["assignment"])
            payload["native_result"] = repro.get("detail")
            v["assignment"] = payload["assignment"]
            v["replay_payload"] = payload
            v["reproduced"] = repro["reproduced"]
        k = known_match(known, prop, v)
        if k is not None:
            line = f"KNOWN-FINDING: property={prop} {k['what']}"
            if line not in known_lines:
                known_lines.append(line)
            if v["kind"] == "obligation" or v.get("counted"):
                n_obl -= 1  # reported as a known finding, not counted among the obligations of this run
            continue
        path = write_replay(prop, v["oid"], v["replay_payload"])
        tail = "" if v.get("reproduced") else " no-failing-input-found"
        reported.append((path, v, tail))

    wall = time.time() - t0
    level = cfg.get("level", "other")
    coverage = {
        "obligations": n_obl,
        "discharged": n_dis,
        "checker_cmd": f"python3-vt -m pyvc.check {prop} {tier}",
        "trusted_base": cfg.get("trusted_base", []) + ["z3 5.1.0 (Python API)", "cvc5 1.0.3 (second opinion on z3 unknowns)", "CPython ast parser", "pyvc symbolic interpreter (canaries + native cross-check)"],
        "explanation": cfg.get("explanation", ""),
        "functions_under_contract": list(funcs.values()),
        "paths_explored": paths,
        "vcs_by_backend": backends,
        "solver_seconds": round(solver_secs, 2),
        "evaluations": native_evals,
        "distinct_nontrivial": native_distinct,
        "rule": "native cross-check: the real function is executed on concrete inputs drawn per contract case (seeded; exhaustive where stated) and compared with the contract's spec; distinct = distinct input assignments inside the contract domain",
        "samples": samples[:12] or [{"note": "no sample"}],
        "bounded_stand_ins": bounded,
        "canaries": canary_report,
        "axioms_used": sorted(axioms),
        "undecided": undecided[:20],
        "extra": extra_cov,
        "known_findings_hit": known_lines,
        "exhaustive": False,
    }
    ev = {
        "property_id": prop,
        "tier": tier,
        "seed": seed,
        "level": level,
        "coverage": coverage,
        "assumptions": cfg.get("assumptions", []),
        "wall_s": round(wall, 2),
        "violations": len(reported),
    }
    os.makedirs(os.path.join(VERIF, "evidence"), exist_ok=True)
    with open(os.path.join(VERIF, "evidence", f"{prop}.json"), "w") as f:
        json.dump(ev, f, indent=1, default=str)

    for line in known_lines:
        print(line)
    slow = sorted(((r["proof"] or {}).get("secs", 0), r["qual"], r["case"]) for r in results)[-3:]
    print(f"{prop} {tier}: obligations={n_obl} discharged={n_dis} native_evals={native_evals} functions={len(funcs)} wall={wall:.1f}s (items {t_items:.1f}s; slowest proofs {slow})")
    if reported:
        for path, v, tail in reported:
            print(f"  failed obligation: {v['oid']} input={v.get('assignment')}")
            print(f"VIOLATION property={prop} replay={path}{tail}")
        return 1
    if problems:
        for p in problems:
            print("PROBLEM:", p)
        return 3
    if undecided:
        for u in undecided:
            print("UNDECIDED:", u)
        return 2
    return 0


def run_canary(prop, tier, seed, can):
    """the same pipeline on an in-memory mutation of the real source: the
    designated case must be refuted"""
    mutate = json.dumps({"file": os.path.join(REPO, can["file"]), "old": can["old"], "new": can["new"]})
    from pyvc import contracts as C

    con = C.CONTRACTS.get(can["contract"])
    if con is None:
        return False, "contract missing"
    idx = [i for i, c in enumerate(con.cases) if c.name == can["case"]]
    if not idx:
        return False, "case missing"
    res = run_items(prop, tier, seed, [(can["contract"], idx[0])], mutate=mutate, procs=1)
    r = res[0]
    if r["proof"] and r["proof"]["status"] == "refuted":
        return True, r["proof"]["refutations"][0]["oid"] if r["proof"]["refutations"] else "refuted"
    if r.get("native") and r["native"].get("mismatches"):
        return True, "native mismatch"
    return False, (r["proof"] or {}).get("status", "?") + " " + str((r["proof"] or {}).get("detail", ""))[:200]


if __name__ == "__main__":
    main()
