"""Builtin functions / types with symbolic-aware handlers."""

from __future__ import annotations

import ast
import builtins
import typing

import z3

from . import ops, sym
from .values import (
    BoundMethod,
    Closure,
    FloatDiv,
    Opaque,
    SCls,
    SFmt,
    SObj,
    TextOf,
    contains_symbolic,
)


def _M():
    from .interp import _MISSING

    return _MISSING


def h_isinstance(it, args, kw, node):
    return it.is_instance(args[0], args[1], node)


def h_issubclass(it, args, kw, node):
    return it.is_subclass(args[0], args[1], node)


def h_type(it, args, kw, node):
    if len(args) == 1:
        return it.type_of(args[0])
    if contains_symbolic(args) or getattr(it, "abstract_type_creation", False):
        # class creation: a fresh class, subclass of exactly the closure of `bases`
        # (DESIGN.md 5.2); recorded so that a contract can inspect it
        name, bases, ns = args
        if not isinstance(bases, tuple) or not bases or not isinstance(ns, dict):
            it.outside("type(name, bases, ns) shape", node)
        it.ctx._fresh += 1
        c = SCls(it.kind_of_cls(bases[0]), _new=it.ctx._fresh)
        c.bases = bases
        c.ns = ns
        c.name = name
        it.ctx.events.append(("type", c))
        return c
    return type(*args)


def h_hasattr(it, args, kw, node):
    return it.has_attr(args[0], args[1], node)


def h_getattr(it, args, kw, node):
    from .values import PyExc

    try:
        return it.get_attr(args[0], args[1], node)
    except PyExc as e:
        if e.cls is AttributeError and len(args) == 3:
            return args[2]
        raise


def h_setattr(it, args, kw, node):
    it.set_attr(args[0], args[1], args[2], node)


def h_int(it, args, kw, node):
    if not args:
        return 0
    v = args[0]
    if isinstance(v, z3.BoolRef):
        return sym.to_int(v)
    if isinstance(v, z3.ArithRef):
        return v
    if isinstance(v, FloatDiv):
        return sym.tfd(v.a, v.b)
    if isinstance(v, SObj):
        for nm in ("__int__", "__index__"):
            m = it.lookup_special(v, nm)
            if m is not _M():
                return it.call(m, [], {}, node)
        it.raise_(TypeError, "int() argument", node=node)
    if isinstance(v, Opaque):
        return Opaque("int()", v)
    if isinstance(v, (SCls, SFmt, Closure, BoundMethod)):
        it.raise_(TypeError, "int() argument", node=node)
    m = ops._repo_dunder(it, v, "__int__") or ops._repo_dunder(it, v, "__index__")
    if m is not None:
        return it.call(m, [], {}, node)
    return it.native_call(int, args, kw, node)


def h_bool(it, args, kw, node):
    if not args:
        return False
    v = args[0]
    if isinstance(v, z3.BoolRef):
        return v
    if isinstance(v, z3.ArithRef):
        return v != 0
    return it.truth(v, node)


def h_len(it, args, kw, node):
    v = args[0]
    if isinstance(v, (list, tuple, dict, set, frozenset, str, range)):
        return len(v)
    if isinstance(v, SObj):
        m = it.lookup_special(v, "__len__")
        if m is _M():
            it.raise_(TypeError, "no len()", node=node)
        return it.call(m, [], {}, node)
    if isinstance(v, Opaque):
        return Opaque("len()", v)
    m = ops._repo_dunder(it, v, "__len__")
    if m is not None:
        return it.call(m, [], {}, node)
    return it.native_call(len, args, kw, node)


def _minmax(is_max):
    def h(it, args, kw, node):
        if len(args) == 1:
            items = it.iterate(args[0], node)
        else:
            items = list(args)
        if kw:
            it.outside("min/max with key", node)
        if not items:
            it.raise_(ValueError, "empty sequence", node=node)
        if all(sym.is_intlike(x) for x in items) and getattr(it, "branch_minmax", False):
            # case split instead of an if-then-else term: keeps exponents of pow2 linear per path
            r = items[0]
            for x in items[1:]:
                if it.truth(sym.to_z3(sym.to_int(x)) > sym.to_z3(sym.to_int(r)) if is_max else sym.to_z3(sym.to_int(x)) < sym.to_z3(sym.to_int(r)), node):
                    r = x
            return r
        if all(sym.is_intlike(x) for x in items):
            r = items[0]
            for x in items[1:]:
                r = sym.maxv(r, x) if is_max else sym.minv(r, x)
            return r
        # general: use comparison dunders (Python: max keeps first maximal)
        r = items[0]
        for x in items[1:]:
            c = ops.compare(it, ast.Gt if is_max else ast.Lt, x, r, node)
            if it.truth(c, node):
                r = x
        return r

    return h


def h_abs(it, args, kw, node):
    v = args[0]
    if sym.is_intlike(v):
        return sym.absval(v)
    if isinstance(v, SObj):
        m = it.lookup_special(v, "__abs__")
        if m is _M():
            it.raise_(TypeError, "bad operand for abs()", node=node)
        return it.call(m, [], {}, node)
    return it.native_call(abs, args, kw, node)


def h_str(it, args, kw, node):
    if not args:
        return ""
    t = ops.to_text(it, args[0], node)
    if isinstance(t, str):
        return t
    return SFmt([t])


def h_repr(it, args, kw, node):
    t = ops.to_text(it, args[0], node, how="repr")
    if isinstance(t, str):
        return t
    return SFmt([t])


def h_range(it, args, kw, node):
    if contains_symbolic(args):
        return SymRange(*args)
    return range(*args)


class SymRange:
    def __init__(self, *a):
        if len(a) == 1:
            self.start, self.stop, self.step = 0, a[0], 1
        elif len(a) == 2:
            self.start, self.stop, self.step = a[0], a[1], 1
        else:
            self.start, self.stop, self.step = a


def h_enumerate(it, args, kw, node):
    start = kw.get("start", args[1] if len(args) > 1 else 0)
    return [(start + i, x) for i, x in enumerate(it.iterate(args[0], node))]


def h_zip(it, args, kw, node):
    return list(zip(*[it.iterate(a, node) for a in args]))


def h_reversed(it, args, kw, node):
    return list(reversed(it.iterate(args[0], node)))


def h_sorted(it, args, kw, node):
    if isinstance(args[0], (set, frozenset)) and not kw and not contains_symbolic(list(args[0])):
        return sorted(args[0])  # the result does not depend on the iteration order: no hash-seed event
    items = it.iterate(args[0], node)
    if contains_symbolic(items) or kw:
        if all(sym.is_intlike(x) for x in items) and len(items) == 2 and not kw:
            a, b = items
            if it.truth(sym.to_z3(sym.to_int(b)) < sym.to_z3(sym.to_int(a)), node):
                return [b, a]
            return [a, b]
        it.outside("sorted on symbolic items", node)
    return sorted(items)


def h_all(it, args, kw, node):
    for x in it.iterate(args[0], node):
        if not it.truth(x, node):
            return False
    return True


def h_any(it, args, kw, node):
    for x in it.iterate(args[0], node):
        if it.truth(x, node):
            return True
    return False


def h_sum(it, args, kw, node):
    r = args[1] if len(args) > 1 else 0
    for x in it.iterate(args[0], node):
        r = ops.binop(it, ast.Add, r, x, node)
    return r


def h_list(it, args, kw, node):
    return list(it.iterate(args[0], node)) if args else []


def h_tuple(it, args, kw, node):
    return tuple(it.iterate(args[0], node)) if args else ()


def h_set(it, args, kw, node):
    if args and type(args[0]).__name__ == "SSet":
        from .values import SSet

        return SSet(args[0].term)
    if not args and getattr(it, "symbolic_set_sort", None) is not None:
        from .values import SSet

        return SSet(z3.EmptySet(it.symbolic_set_sort))  # sets of object identities
    items = it.iterate(args[0], node) if args else []
    if contains_symbolic(items):
        it.outside("set() of symbolic items", node)
    return set(items)


def h_frozenset(it, args, kw, node):
    return frozenset(h_set(it, args, kw, node))


def h_dict(it, args, kw, node):
    d = {}
    if args:
        src = args[0]
        if isinstance(src, dict):
            d.update(src)
        else:
            for k, v in it.iterate(src, node):
                d[k] = v
    d.update(kw)
    return d


def h_id(it, args, kw, node):
    v = args[0]
    if isinstance(v, SObj):
        if "__id__" in v.fields:
            return v.fields["__id__"]  # symbolic identity (injective by the contract's assumption)
        return 10_000_000 + v.uid
    return id(v)


def h_print(it, args, kw, node):
    return None


def h_iter(it, args, kw, node):
    return it.iterate(args[0], node)


def h_callable(it, args, kw, node):
    v = args[0]
    if isinstance(v, (Closure, BoundMethod, SCls)):
        return True
    if isinstance(v, SObj):
        return it.lookup_special(v, "__call__") is not _M()
    return callable(v)


def h_slice(it, args, kw, node):
    return slice(*args)


def h_divmod(it, args, kw, node):
    a, b = args
    return (ops.binop(it, ast.FloorDiv, a, b, node), ops.binop(it, ast.Mod, a, b, node))


def h_pow(it, args, kw, node):
    return ops.binop(it, ast.Pow, args[0], args[1], node)


def h_cast(it, args, kw, node):
    return args[1]


HANDLERS = {
    isinstance: h_isinstance,
    issubclass: h_issubclass,
    hasattr: h_hasattr,
    getattr: h_getattr,
    setattr: h_setattr,
    len: h_len,
    max: _minmax(True),
    min: _minmax(False),
    abs: h_abs,
    repr: h_repr,
    sorted: h_sorted,
    all: h_all,
    any: h_any,
    sum: h_sum,
    id: h_id,
    print: h_print,
    iter: h_iter,
    callable: h_callable,
    divmod: h_divmod,
    pow: h_pow,
    typing.cast: h_cast,
}

TYPE_HANDLERS = {
    type: h_type,
    int: h_int,
    bool: h_bool,
    str: h_str,
    range: h_range,
    enumerate: h_enumerate,
    zip: h_zip,
    reversed: h_reversed,
    list: h_list,
    tuple: h_tuple,
    set: h_set,
    frozenset: h_frozenset,
    dict: h_dict,
    slice: h_slice,
}


def call_pseudo(it, bm, args, kw, node):
    """methods of symbolic ints / text"""
    what, name = bm.fn
    v = bm.self_obj
    if what == "int":
        if name == "bit_length":
            return sym.bit_length(v)
        if name == "bit_count":
            return sym.bit_count(v)
        if name in ("__index__", "__int__"):
            return sym.to_int(v)
    if what == "sfmt":
        return SFmt([TextOf(v, name)])
    if what == "sstr":
        from .values import SStr

        if name == "lower" and not args:
            return SStr(sym.S_LOWER(v.term))
        if name == "strip" and list(args) == ["_"]:
            return SStr(sym.S_STRIP(v.term))
    if what == "sset":
        from .values import SSet

        if name in ("add", "discard") and len(args) == 1 and sym.is_intlike(args[0]):
            t = sym.to_z3(sym.to_int(args[0]))
            v.term = z3.SetAdd(v.term, t) if name == "add" else z3.SetDel(v.term, t)
            return None
        if name in ("difference_update", "update", "intersection_update") and len(args) == 1 and isinstance(args[0], SSet):
            f = {"difference_update": z3.SetDifference, "update": z3.SetUnion, "intersection_update": z3.SetIntersect}[name]
            v.term = f(v.term, args[0].term)
            return None
        if name == "add" and len(args) == 1:
            t = ops.str_term(args[0])
            if t is None:
                it.outside("adding a non-string to a set of names", node)
            hook = getattr(it, "on_set_add", None)
            if hook is not None:
                hook(v, t)
            v.term = z3.SetAdd(v.term, t)
            return None
        if name == "copy":
            return SSet(v.term)
    it.outside(f"method {name}", node)
