"""Replay a counterexample against the real code in /repo."""

from __future__ import annotations

import importlib
import os
import random
import sys

VERIF = os.path.dirname(os.path.dirname(os.path.abspath(__file__)))
if VERIF not in sys.path:
    sys.path.insert(0, VERIF)


def _case(payload):
    for m in payload.get("modules", []):
        importlib.import_module(m)
    from pyvc import contracts as C

    C.finalize()
    con = C.CONTRACTS[payload["contract"]]
    case = [c for c in con.cases if c.name == payload["case"]][0]
    return con, case


def try_reproduce(payload, search=False, seed=0):
    """-> {reproduced, assignment, detail}"""
    from pyvc import verify

    if payload.get("custom"):
        mod, _, name = payload["custom"].rpartition(".")
        return getattr(importlib.import_module(mod), name)(payload)
    try:
        con, case = _case(payload)
    except Exception as e:
        return {"reproduced": False, "detail": f"cannot locate contract case: {e}"}
    from contracts.core_models import NS

    if not case.native:
        return {"reproduced": False, "assignment": payload.get("assignment"), "detail": "this contract case has no native counterpart (ghost state / symbolic cache); see the verifier output"}
    asg = dict(payload.get("assignment") or {})
    names = [n for s in case.shapes() for n in s.names]
    if all(n in asg for n in names):
        verdict, detail = verify.run_native_once(con, case, asg, NS)
        if verdict == "mismatch":
            return {"reproduced": True, "assignment": asg, "detail": detail}
        first = (verdict, detail)
    else:
        first = ("skip", "incomplete model")
    if search:
        # the verifier's model may rest on uninterpreted symbols (pow2, text):
        # look for a real failing input of the same contract case
        rng = random.Random(seed + 7919)
        st = verify.native_case(con, case, 3000, rng, NS)
        if st["mismatches"]:
            mm = st["mismatches"][0]
            return {"reproduced": True, "assignment": mm["assignment"], "detail": {"real": mm["real"], "spec": mm["spec"], "found_by": "native search around the verifier's model"}}
    return {"reproduced": False, "assignment": asg, "detail": {"model_replay": str(first)}}


def main(payload):
    print(f"property   : {payload.get('property')}")
    print(f"obligation : {payload.get('obligation')}")
    print(f"contract   : {payload.get('contract')} case {payload.get('case')}")
    print(f"input      : {payload.get('assignment')}")
    print(f"verifier   : {payload.get('verifier_output')}")
    r = try_reproduce(payload, search=False)
    print(f"real code  : {r.get('detail')}")
    if r["reproduced"]:
        print("REPRODUCED: the real code in /repo disagrees with the contract on this input")
        return 1
    print("not reproduced on this tree")
    return 0
