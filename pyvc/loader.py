"""Locate the AST of real functions in /repo.  Source is re-read on every run.

A function is identified either by a real function object (through its code
object: file + first line, decorators included) or by a qualified name
"pkg.module:Class.method" / "pkg.module:func.inner".
"""

from __future__ import annotations

import ast
import hashlib
import importlib
import inspect
import os
import sys
import types

from . import REPO

if REPO not in sys.path:
    sys.path.insert(0, REPO)


class FuncSrc:
    def __init__(self, node, file, module, qualname, cls_name, src_lines):
        self.node = node
        self.file = file
        self.module = module  # real module object
        self.qualname = qualname
        self.cls_name = cls_name
        end = getattr(node, "end_lineno", node.lineno)
        start = min([node.lineno] + [d.lineno for d in getattr(node, "decorator_list", [])])
        self.lineno = start
        self.end_lineno = end
        self.text = "\n".join(src_lines[start - 1 : end])
        self.sha256 = hashlib.sha256(self.text.encode()).hexdigest()

    def ident(self):
        rel = os.path.relpath(self.file, REPO)
        return f"{rel}:{self.lineno}-{self.end_lineno} {self.qualname}"


_file_cache: dict[str, tuple[ast.Module, list[str], dict]] = {}


def _index_file(path):
    path = os.path.realpath(path)
    if path in _file_cache:
        return _file_cache[path]
    with open(path, "r") as f:
        text = f.read()
    mut = os.environ.get("PYVC_MUTATE")
    if mut:
        import json

        m = json.loads(mut)
        if os.path.realpath(m["file"]) == path:
            if text.count(m["old"]) != 1 or m["old"].count("\n") != m["new"].count("\n"):
                raise RuntimeError(f"canary mutation does not apply exactly once: {m['old']!r}")
            text = text.replace(m["old"], m["new"])
    tree = ast.parse(text, filename=path)
    lines = text.split("\n")
    by_line: dict[int, tuple[ast.AST, str, str | None]] = {}

    def visit(node, prefix, cls_name):
        for child in ast.iter_child_nodes(node):
            if isinstance(child, (ast.FunctionDef, ast.AsyncFunctionDef)):
                q = f"{prefix}{child.name}"
                first = min([child.lineno] + [d.lineno for d in child.decorator_list])
                by_line[first] = (child, q, cls_name)
                by_line.setdefault(child.lineno, (child, q, cls_name))
                visit(child, q + ".", None)
            elif isinstance(child, ast.ClassDef):
                q = f"{prefix}{child.name}"
                visit(child, q + ".", q)
            elif isinstance(child, ast.Lambda):
                by_line.setdefault(child.lineno, (child, f"{prefix}<lambda>", cls_name))
                visit(child, prefix, cls_name)
            else:
                visit(child, prefix, cls_name)

    visit(tree, "", None)
    _file_cache[path] = (tree, lines, by_line)
    return _file_cache[path]


def module_of_file(path):
    path = os.path.realpath(path)
    for m in list(sys.modules.values()):
        f = getattr(m, "__file__", None)
        if f and os.path.realpath(f) == path:
            return m
    return None


def from_code(code: types.CodeType) -> FuncSrc | None:
    path = code.co_filename
    if not os.path.isfile(path):
        return None
    tree, lines, by_line = _index_file(path)
    ent = by_line.get(code.co_firstlineno)
    if ent is None:
        return None
    node, q, cls_name = ent
    if getattr(node, "name", "<lambda>") != code.co_name and code.co_name != "<lambda>":
        # a different def on that line?
        return None
    return FuncSrc(node, os.path.realpath(path), module_of_file(path), q, cls_name, lines)


def unwrap_function(obj):
    """real function object behind staticmethod/classmethod/property(fget)"""
    if isinstance(obj, (staticmethod, classmethod)):
        obj = obj.__func__
    if isinstance(obj, property):
        obj = obj.fget
    return obj


def resolve(qual: str):
    """'cohdl._core._unsigned:Unsigned.__mul__' -> raw attribute (static lookup)"""
    modname, _, path = qual.partition(":")
    mod = importlib.import_module(modname)
    obj = mod
    parts = path.split(".")
    for i, p in enumerate(parts):
        if isinstance(obj, type):
            found = None
            for k in obj.__mro__:
                if p in k.__dict__:
                    found = k.__dict__[p]
                    break
            if found is None:
                # metaclass attributes
                found = inspect.getattr_static(obj, p)
            obj = found
        elif isinstance(obj, types.ModuleType):
            obj = getattr(obj, p)
        else:
            obj = getattr(obj, p)
    return obj


def find(qual: str) -> FuncSrc:
    """AST of a module-level function, method, or nested function (by path)."""
    modname, _, path = qual.partition(":")
    mod = importlib.import_module(modname)
    file = os.path.realpath(mod.__file__)
    tree, lines, by_line = _index_file(file)
    parts = path.split(".")

    def search(body, parts, prefix, cls_name):
        name = parts[0]
        # name#k selects the k-th (1-based) definition of that name in the body
        ordinal = 1
        if "#" in name:
            name, _, o = name.partition("#")
            ordinal = int(o)
        seen = 0
        for node in _walk_defs(body):
            if isinstance(node, (ast.FunctionDef, ast.AsyncFunctionDef, ast.ClassDef)) and node.name == name:
                seen += 1
                if seen != ordinal:
                    continue
                q = f"{prefix}{node.name}"
                if len(parts) == 1:
                    if isinstance(node, ast.ClassDef):
                        raise KeyError(f"{qual} is a class")
                    return FuncSrc(node, file, mod, q, cls_name, lines)
                return search(
                    node.body,
                    parts[1:],
                    q + ".",
                    q if isinstance(node, ast.ClassDef) else None,
                )
        raise KeyError(f"function {qual} not found in {file}")

    return search(tree.body, parts, "", None)


def _walk_defs(body):
    """defs directly in this body, looking through if/try/with/for blocks"""
    for node in body:
        if isinstance(node, (ast.FunctionDef, ast.AsyncFunctionDef, ast.ClassDef)):
            yield node
        elif isinstance(node, (ast.If, ast.Try, ast.With, ast.For, ast.While)):
            for field in ("body", "orelse", "finalbody"):
                yield from _walk_defs(getattr(node, field, []) or [])
            for h in getattr(node, "handlers", []) or []:
                yield from _walk_defs(h.body)


def reset():
    _file_cache.clear()
