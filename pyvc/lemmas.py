"""Arithmetic lemma schemas over the integers, free of uninterpreted functions.

A schema is a closed universally quantified formula  forall vars. body.  It is
PROVED (negation unsat, z3 then cvc5) once per process before its first
instantiation; an instance substitutes arbitrary integer terms (for example
pow2 applications) for the variables, which is sound for any interpretation of
the symbols inside those terms.  If a schema cannot be proved the engine
reports the obligation as outside the subset -- it is never assumed.
"""

from __future__ import annotations

import z3

from . import smt
from .values import OutsideSubset

_x, _p, _q, _lo, _hi, _y = z3.Ints("lx lp lq llo lhi ly")

SCHEMAS = {
    # scaling a bounded integer by a positive factor scales the bounds
    "scale-bound": ([_x, _lo, _hi, _q], z3.Implies(z3.And(_q >= 1, _lo <= _x, _x <= _hi), z3.And(_lo * _q <= _x * _q, _x * _q <= _hi * _q))),
    # floor quotient by a modulus that bounds the dividend in absolute value (two's complement wrap is the identity)
    "div-range": ([_x, _q], z3.Implies(z3.And(_q > 0, -_q <= _x, _x < _q), z3.And(z3.Implies(_x >= 0, _x / _q == 0), z3.Implies(_x < 0, _x / _q == -1)))),
    # scaling dividend and modulus by the same positive factor
    "mod-scale": ([_x, _p, _q], z3.Implies(z3.And(_p > 0, _q > 0), (_x * _q) % (_p * _q) == _q * (_x % _p))),
    "div-scale": ([_x, _p, _q], z3.Implies(z3.And(_p > 0, _q > 0), (_x * _q) / (_p * _q) == _x / _p)),
    "div-div": ([_x, _p, _q], z3.Implies(z3.And(_p > 0, _q > 0), (_x / _p) / _q == _x / (_p * _q))),
    # floor division by a positive modulus: shifting the dividend by multiples, thresholds, remainder bounds
    "div-sub-multiple": ([_x, _p, _q], z3.Implies(_p > 0, (_x - _q * _p) / _p == _x / _p - _q)),
    "div-threshold": ([_x, _p, _q], z3.Implies(_p > 0, (_x / _p >= _q) == (_x >= _q * _p))),
    "div-bounds": ([_x, _p], z3.Implies(_p > 0, z3.And(_p * (_x / _p) <= _x, _x < _p * (_x / _p) + _p))),
    "div-multiple": ([_x, _p], z3.Implies(_p > 0, (_x * _p) / _p == _x)),
    # x * y is a multiple of p whenever y is: the residue is 0
    "mod-multiple3": ([_x, _p, _q, _y], z3.Implies(z3.And(_p > 0, _y == _q * _p), (_x * _y) - _p * ((_x * _y) / _p) == 0)),
    # the same with the product given as a separate term r == p*q (e.g. 2**(a+b) for p = 2**a, q = 2**b)
    "mod-scale3": ([_x, _p, _q, _y], z3.Implies(z3.And(_p > 0, _q > 0, _y == _p * _q), (_x * _q) - _y * ((_x * _q) / _y) == _q * (_x - _p * (_x / _p)))),
    "div-scale3": ([_x, _p, _q, _y], z3.Implies(z3.And(_p > 0, _q > 0, _y == _p * _q), (_x * _q) / _y == _x / _p)),
    # product of two bounded non-negative integers
    "product-bound": ([_x, _p, _y, _q], z3.Implies(z3.And(0 <= _x, _x <= _p, 0 <= _y, _y <= _q), z3.And(0 <= _x * _y, _x * _y <= _p * _q))),
    # product of two integers bounded in absolute value
    "abs-product-bound": ([_x, _p, _y, _q], z3.Implies(z3.And(-_p <= _x, _x <= _p, -_q <= _y, _y <= _q, _p >= 0, _q >= 0), z3.And(-(_p * _q) <= _x * _y, _x * _y <= _p * _q))),
}

_PROVED: dict = {}


def prove_schema(name):
    if name in _PROVED:
        return _PROVED[name]
    vars_, body = SCHEMAS[name]
    # nonlinear schemas: z3 normally answers in 0.1 s but was seen to run into the 60 s limit once on a loaded machine
    # (C18 `ror`, seventh session): several fresh solvers with different seeds before the answer counts as unknown
    how = None
    r = z3.unknown
    for seed, limit in ((0, 20000), (1, 20000), (2, 20000), (3, 60000)):
        s = z3.Solver()
        s.set("timeout", limit)
        s.set("random_seed", seed)
        s.add(z3.Not(body))
        r = s.check()
        if r != z3.unknown:
            break
    if r == z3.unsat:
        how = "z3"
    elif r == z3.unknown:
        try:
            r2 = smt.cvc5_check(s.to_smt2(), 60000)
        except Exception:
            r2 = "unknown"
        if r2 == "unsat":
            how = "cvc5"
    _PROVED[name] = how
    return how


def instance(name, terms):
    how = prove_schema(name)
    if how is None:
        raise OutsideSubset(f"lemma schema {name} could not be proved; not assumed")
    vars_, body = SCHEMAS[name]
    if len(terms) != len(vars_):
        raise OutsideSubset(f"lemma {name}: {len(vars_)} terms expected")
    return z3.substitute(body, *[(v, t) for v, t in zip(vars_, terms)])
