"""developer runner: python3-vt -m pyvc.devrun <module> [substring]"""

import importlib
import random
import sys
import time

from pyvc import contracts as C
from pyvc import verify


def main():
    sys.path.insert(0, "/verif")
    mods = sys.argv[1].split(",")
    filt = sys.argv[2] if len(sys.argv) > 2 else ""
    native = "--native" in sys.argv
    for m in mods:
        importlib.import_module(m)
    from contracts.core_models import NS

    C.finalize()
    quiet = "--quiet" in sys.argv
    rng = random.Random(1)
    tot = {}
    for qual, con in C.CONTRACTS.items():
        if filt not in qual:
            continue
        try:
            con.resolve()
        except Exception as e:
            print("UNRESOLVED", qual, e)
            continue
        for case in con.cases:
            t0 = time.time()
            if con.status != "proved":
                st = verify.native_case(con, case, 200, rng, NS)
                tot["bounded"] = tot.get("bounded", 0) + 1
                if st["mismatches"] or not quiet:
                    print(f"bounded    {qual}[{case.name}] evals={st['evaluations']} mismatches={len(st['mismatches'])}")
                for mm in st["mismatches"][:2]:
                    print("           MISMATCH", mm)
                continue
            rep = verify.verify_case(con, case)
            tot[rep.status] = tot.get(rep.status, 0) + 1
            line = f"{rep.status:10s} {qual}[{case.name}] paths={rep.paths} obl={len(rep.obligations)} {time.time()-t0:.2f}s"
            if not quiet or rep.status != "discharged":
                print(line)
            if rep.status != "discharged":
                print("    ", rep.detail[-700:])
                for r in rep.refutations[:3]:
                    print("     REFUTED", r["oid"], r["assignment"], r["info"].get("real"), "| spec", r["info"].get("spec"))
                for o in rep.obligations:
                    if o["status"] != "discharged":
                        print("     ", o["oid"], o["status"], o["sample_goal"][:300])
            if native:
                st = verify.native_case(con, case, 200, rng, NS)
                print(f"           native: evals={st['evaluations']} distinct={len(st['distinct'])} unspecified={st['unspecified']} mismatches={len(st['mismatches'])}")
                for mm in st["mismatches"][:3]:
                    print("           MISMATCH", mm)
    print(tot)


if __name__ == "__main__":
    main()
