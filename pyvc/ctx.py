"""Path context + path explorer (re-execution with a decision prefix)."""

from __future__ import annotations

import time
import z3

from . import sym
from .values import Infeasible, OutsideSubset, PathEnd, PyExc

SOLVER_TIMEOUT_MS = 10000


class ObligationResult:
    def __init__(self, oid, status, model=None, info=None, backend="z3", secs=0.0, goal=None):
        self.oid = oid
        self.status = status  # discharged | refuted | unknown
        self.model = model
        self.info = info or {}
        self.backend = backend
        self.secs = secs
        self.goal = goal


class Ctx:
    def __init__(self, explorer, prefix):
        self.ex = explorer
        self.prefix = list(prefix)
        self.decisions: list[bool] = []
        self.solver = z3.Solver()
        self.solver.set("timeout", explorer.timeout_ms)
        self.pc: list = []
        self.axioms_used: set[str] = set()
        self._fresh = 0
        self._pow2_terms: list = []
        self._pow2_depth1: list = []
        self.events: list = []
        self.results: list[ObligationResult] = []
        self.global_overlay: dict = {}
        self.attr_overlay: dict = {}
        self.solver_secs = 0.0
        self.call_depth = 0

    # ---- symbols -------------------------------------------------------
    def fresh_int(self, name="v"):
        self._fresh += 1
        return z3.Int(f"{name}!{self._fresh}")

    def fresh_bool(self, name="b"):
        self._fresh += 1
        return z3.Bool(f"{name}!{self._fresh}")

    # ---- assumptions ---------------------------------------------------
    def assume(self, cond, axiom=None):
        if cond is True:
            return
        if cond is False:
            raise Infeasible()
        self.solver.add(cond)
        if axiom:
            self.axioms_used.add(axiom)
        else:
            self.pc.append(cond)

    def _check(self, *assumptions):
        t0 = time.time()
        r = self.solver.check(*assumptions)
        self.solver_secs += time.time() - t0
        return r

    def feasible(self):
        return self._check() != z3.unsat

    def entails(self, cond):
        """True only if the path condition (with the axioms added so far) implies cond"""
        cond = sym.simp(cond)
        if isinstance(cond, bool):
            return cond
        return self._check(z3.Not(cond)) == z3.unsat

    # ---- branching -----------------------------------------------------
    def branch(self, cond) -> bool:
        cond = sym.simp(cond)
        if isinstance(cond, bool):
            return cond
        if isinstance(cond, int):
            return cond != 0
        if sym.is_symint(cond):
            cond = cond != 0
        pos = len(self.decisions)
        if pos < len(self.prefix):
            d = self.prefix[pos]
        else:
            rt = self._check(cond)
            rf = self._check(z3.Not(cond))
            if rt == z3.unknown or rf == z3.unknown:
                # keep both sides; an infeasible side only adds vacuous paths
                can_t = rt != z3.unsat
                can_f = rf != z3.unsat
            else:
                can_t = rt == z3.sat
                can_f = rf == z3.sat
            if can_t and can_f:
                d = True
                self.ex.todo.append(self.decisions + [False])
            elif can_t:
                d = True
            elif can_f:
                d = False
            else:
                raise Infeasible()
        self.decisions.append(d)
        self.solver.add(cond if d else z3.Not(cond))
        self.pc.append(cond if d else z3.Not(cond))
        return d

    def choose(self, n, label="choice") -> int:
        """non-deterministic choice among n alternatives (all explored)"""
        for i in range(n - 1):
            b = self.fresh_bool(f"{label}{i}")
            if self.branch(b):
                return i
        return n - 1

    # ---- obligations ---------------------------------------------------
    def prove(self, oid, goal, **info):
        goal = sym.simp(goal)
        t0 = time.time()
        if goal is True:
            res = ObligationResult(oid, "discharged", info=info, goal="True")
        elif goal is False:
            r = self._check()
            if r == z3.unsat:
                res = ObligationResult(oid, "discharged", info=info, goal="False(vacuous)")
            elif r == z3.sat:
                res = ObligationResult(oid, "refuted", model=self.solver.model(), info=info, goal="False")
            else:
                res = ObligationResult(oid, "unknown", info=info, goal="False")
        else:
            r = self._check(z3.Not(goal))
            if r == z3.unsat:
                res = ObligationResult(oid, "discharged", info=info, goal=str(goal)[:400])
            elif r == z3.sat:
                res = ObligationResult(oid, "refuted", model=self.solver.model(), info=info, goal=str(goal)[:400])
            else:
                res = self.ex.second_opinion(self, oid, goal, info)
        res.secs = time.time() - t0
        res.info.setdefault("pc", [str(c)[:200] for c in self.pc[-12:]])
        self.results.append(res)
        if res.status != "discharged" and goal is not False and goal is not True:
            # continue the path under the goal so that later obligations are independent
            self.solver.add(goal)
        return res.status == "discharged"

    # ---- pow2 axioms (ground instantiation) ------------------------------
    def note_pow2(self, e, depth=0):
        for t in self._pow2_terms + self._pow2_depth1:
            if t.eq(e):
                return
        P = sym.P2
        self.axioms_used.add("pow2-ground")
        add = self.solver.add
        add(z3.Implies(e >= 0, P(e) >= e + 1))
        add(P(e) >= 1)  # total extension: pow2 of a negative exponent is some positive integer
        for c in range(0, 6):
            add(z3.Implies(e == c, P(e) == 2**c))
        others = list(self._pow2_terms) + list(self._pow2_depth1)
        if depth == 0:
            self._pow2_terms.append(e)
        else:
            self._pow2_depth1.append(e)
        for o in others:
            d = sym.simp(e - o)
            if isinstance(d, int):
                if d >= 0:
                    add(z3.Implies(o >= 0, P(e) == (2**d) * P(o)))
                else:
                    add(z3.Implies(e >= 0, P(o) == (2 ** (-d)) * P(e)))
                continue
            add(z3.Implies(z3.And(e >= 0, e <= o), P(e) <= P(o)))
            add(z3.Implies(z3.And(e >= 0, e < o), 2 * P(e) <= P(o)))
            add(z3.Implies(z3.And(o >= 0, o <= e), P(o) <= P(e)))
            add(z3.Implies(z3.And(o >= 0, o < e), 2 * P(o) <= P(e)))
        if depth == 0:
            # product axiom against earlier depth-0 terms: P(a+b) = P(a)*P(b)
            for o in list(self._pow2_terms[:-1]):
                s = sym.simp(e + o)
                if isinstance(s, int):
                    continue
                if len(self._pow2_terms) <= 5:
                    self.note_pow2(s, 1)
                known = any(t.eq(s) for t in self._pow2_terms + self._pow2_depth1)
                if known:
                    add(z3.Implies(z3.And(e >= 0, o >= 0), P(s) == P(e) * P(o)))
            # e == c * t for a small constant c:  P(e) = P(t)**c
            if z3.is_app(e) and e.decl().kind() == z3.Z3_OP_MUL and e.num_args() == 2:
                a, b = e.arg(0), e.arg(1)
                if z3.is_int_value(b):
                    a, b = b, a
                if z3.is_int_value(a) and 2 <= a.as_long() <= 3 and not z3.is_int_value(b):
                    self.note_pow2(b, 1)
                    prod = P(b)
                    for _ in range(a.as_long() - 1):
                        prod = prod * P(b)
                    add(z3.Implies(b >= 0, P(e) == prod))
            # if e itself is a sum a+b of known terms
            if z3.is_app(e) and e.decl().kind() == z3.Z3_OP_ADD and e.num_args() == 2:
                a, b = e.arg(0), e.arg(1)
                if not z3.is_int_value(a) and not z3.is_int_value(b):
                    self.note_pow2(a, 1)
                    self.note_pow2(b, 1)
                    add(z3.Implies(z3.And(a >= 0, b >= 0), P(e) == P(a) * P(b)))


class PathOutcome:
    def __init__(self, ctx, kind, value=None, exc=None):
        self.ctx = ctx
        self.kind = kind  # 'return' | 'raise' | 'cut' | 'outside'
        self.value = value
        self.exc = exc


class Explorer:
    """enumerates the feasible paths of `run(ctx)` by re-execution"""

    def __init__(self, timeout_ms=SOLVER_TIMEOUT_MS, max_paths=4000, use_cvc5=True):
        self.timeout_ms = timeout_ms
        self.max_paths = max_paths
        self.todo: list[list[bool]] = []
        self.use_cvc5 = use_cvc5
        self.paths = 0

    def explore(self, run):
        """run(ctx) -> value; yields PathOutcome per feasible path"""
        self.todo = [[]]
        outcomes = []
        while self.todo:
            prefix = self.todo.pop()
            self.paths += 1
            if self.paths > self.max_paths:
                raise OutsideSubset(f"more than {self.max_paths} paths")
            ctx = Ctx(self, prefix)
            sym.CUR = ctx
            try:
                try:
                    v = run(ctx)
                    outcomes.append(PathOutcome(ctx, "return", value=v))
                except PyExc as e:
                    outcomes.append(PathOutcome(ctx, "raise", exc=e))
                except PathEnd:
                    outcomes.append(PathOutcome(ctx, "cut"))
                except Infeasible:
                    pass
            finally:
                sym.CUR = None
        return outcomes

    def second_opinion(self, ctx, oid, goal, info):
        """z3 said unknown: ask cvc5 on the same assertions"""
        if not self.use_cvc5:
            return ObligationResult(oid, "unknown", info=info, goal=str(goal)[:400])
        from . import smt

        s2 = z3.Solver()
        for a in ctx.solver.assertions():
            s2.add(a)
        s2.add(z3.Not(goal))
        status = smt.cvc5_check(s2.to_smt2(), self.timeout_ms)
        if status == "unsat":
            return ObligationResult(oid, "discharged", info=info, backend="cvc5", goal=str(goal)[:400])
        return ObligationResult(oid, "unknown", info=info, backend="z3+cvc5", goal=str(goal)[:400])
