"""Contracts: spec functions, input shapes, cases, and the two ways a contract
is used (proof goal for the function itself; summary at call sites)."""

from __future__ import annotations

import random
import types

import z3

from . import interp as I
from . import loader, sym
from .values import (
    BoundMethod,
    Infeasible,
    Opaque,
    OutsideSubset,
    PathEnd,
    PyExc,
    SCls,
    SFmt,
    SObj,
    SRepeat,
    TextOf,
)


# ----------------------------------------------------------------------
# spec-side control
# ----------------------------------------------------------------------
class SpecRaise(Exception):
    def __init__(self, cls):
        self.cls = cls


class SpecUnspecified(Exception):
    """inputs outside the contract's domain: any outcome allowed"""


class CalleeUnspecified(Exception):
    def __init__(self, name):
        self.name = name


class SpecCtx:
    """branching API usable both symbolically (ctx given) and concretely"""

    def __init__(self, ctx=None, it=None):
        self.ctx = ctx
        self.it = it

    def branch(self, cond) -> bool:
        if self.ctx is None:
            c = sym.simp(cond)
            if isinstance(c, (bool, int)):
                return bool(c)
            raise RuntimeError(f"concrete spec branch on symbolic condition {cond}")
        return self.ctx.branch(cond)

    def reject(self, cls=AssertionError):
        raise SpecRaise(cls)

    def require(self, cond, cls=AssertionError):
        """spec-side assert: reject unless cond"""
        if not self.branch(cond):
            raise SpecRaise(cls)

    def unspecified(self):
        raise SpecUnspecified()

    def may_reject_here(self, cls=AssertionError):
        """on THIS path of the spec the code may reject (raise `cls`) instead of returning the value the spec
        goes on to return: 'rejected, or exactly this value' (e.g. a compile-time fold that may refuse a result the
        hardware would wrap -- but if it yields a number, it is the hardware's number)"""
        self.path_may_reject = cls

    def domain(self, cond):
        """restrict the contract's domain"""
        if not self.branch(cond):
            raise SpecUnspecified()

    def lemma(self, name, *terms):
        """instantiate a PROVED arithmetic lemma schema (pyvc.lemmas) with the given
        terms; the schema is proved by the solver once per process before its first use,
        an unproved schema is never assumed.  No-op in concrete mode."""
        if self.ctx is None:
            return
        from . import lemmas

        inst = lemmas.instance(name, [sym.to_z3(sym.to_int(t)) for t in terms])
        self.ctx.solver.add(inst)
        self.ctx.axioms_used.add("lemma:" + name)

    def have(self, label, cond):
        """intermediate proof step: `cond` is PROVED here (its own obligation `have.<label>`) and then available
        to the obligations that follow -- splits a hard goal into small ones, never assumes anything"""
        if self.ctx is None:
            return
        self.ctx.prove(f"{getattr(self, 'oid_prefix', '')}have.{label}", cond)

    def pow2_facts(self, *exponents, products=()):
        """proof hints about pow2 (true of 2**n): ordering / constant-offset relations
        between the given exponent terms and P(a+b) == P(a)*P(b) for the given pairs"""
        if self.ctx is None:
            return
        for e in exponents:
            e = sym.simp(sym.to_int(e))
            if not isinstance(e, int):
                self.ctx.note_pow2(sym.to_z3(e), 1)
        for a, b in products:
            a, b = sym.to_z3(sym.to_int(a)), sym.to_z3(sym.to_int(b))
            self.ctx.solver.add(z3.Implies(z3.And(a >= 0, b >= 0), sym.P2(a + b) == sym.P2(a) * sym.P2(b)))
            self.ctx.axioms_used.add("pow2-ground")


class Effect:
    """spec outcome with post-state of mutated arguments"""

    def __init__(self, result=None, post=None):
        self.result = result
        self.post = post or {}  # arg index -> expected value after the call


# ----------------------------------------------------------------------
# value equality (proof goal)
# ----------------------------------------------------------------------
def _is_bool(x):
    return isinstance(x, (bool, z3.BoolRef))


def veq(it, real, spec):
    """condition under which interpreter value `real` equals spec value `spec`"""
    if spec is ANY:
        return True
    if isinstance(spec, Pred):
        return spec.fn(real)
    if sym.is_intlike(spec):
        if not sym.is_intlike(real):
            return False
        if _is_bool(spec) != _is_bool(real):
            return False
        return sym.eq(real, spec)
    if isinstance(spec, SObj):
        if not isinstance(real, SObj):
            return False
        c = it.same_class(real.cls, spec.cls) if (isinstance(real.cls, SCls) or isinstance(spec.cls, SCls)) else (real.cls is spec.cls)
        conds = [c]
        for k, v in spec.fields.items():
            if k not in real.fields:
                return False
            conds.append(veq(it, real.fields[k], v))
        return sym.And(*conds)
    if isinstance(spec, SCls) or (isinstance(spec, type) and isinstance(real, SCls)):
        if not isinstance(real, (SCls, type)):
            return False
        return it.same_class(real, spec)
    if isinstance(spec, (tuple, list)):
        if not isinstance(real, (tuple, list)) or len(real) != len(spec) or type(real) is not type(spec):
            return False
        return sym.And(*[veq(it, a, b) for a, b in zip(real, spec)])
    if isinstance(spec, SFmt) or isinstance(real, SFmt):
        return text_eq(it, real, spec)
    if isinstance(spec, dict):
        if not isinstance(real, dict) or set(map(id, real)) != set(map(id, spec)) and set(real) != set(spec):
            return False
        return sym.And(*[veq(it, real[k], spec[k]) for k in spec])
    if isinstance(spec, Opaque):
        return real is spec
    if isinstance(spec, str):
        return isinstance(real, str) and real == spec
    return real is spec or (type(real) is type(spec) and not isinstance(real, (SObj, SCls)) and _safe_eq(real, spec))


def _safe_eq(a, b):
    try:
        return bool(a == b)
    except Exception:
        return False


def text_parts(x):
    if isinstance(x, str):
        return [x] if x else []
    if isinstance(x, SFmt):
        return list(x.parts)
    return [x]


def text_eq(it, a, b):
    pa, pb = text_parts(a), text_parts(b)
    if len(pa) != len(pb):
        return False
    conds = []
    for x, y in zip(pa, pb):
        if isinstance(x, str) or isinstance(y, str):
            if x != y:
                return False
        elif isinstance(x, TextOf) and isinstance(y, TextOf):
            if x.how != y.how:
                return False
            conds.append(veq(it, x.value, y.value))
        elif isinstance(x, SRepeat) and isinstance(y, SRepeat):
            if x.unit != y.unit:
                return False
            conds.append(sym.eq(x.count, y.count))
        elif isinstance(x, Opaque) and isinstance(y, Opaque):
            if x is not y:
                return False
        else:
            return False
    return sym.And(*conds)


class _Any:
    def __repr__(self):
        return "ANY"


ANY = _Any()


class Pred:
    """spec value given as a predicate over the real result"""

    def __init__(self, fn, desc="", native=None):
        self.fn = fn
        self.desc = desc
        self.native = native  # fn(real_result) -> bool, used by the native cross-check

    def __repr__(self):
        return f"Pred({self.desc})"


# ----------------------------------------------------------------------
# shapes: symbolic inputs with a concrete counterpart
# ----------------------------------------------------------------------
class Shape:
    names: list[str] = []

    def make(self, ctx, env):  # -> interpreter value ; env: name -> z3 const
        raise NotImplementedError

    def assume(self, env):  # type invariant over env
        return True

    def concrete_src(self, asg) -> str:  # python expression building the real value
        raise NotImplementedError

    def concrete_spec(self, asg):  # spec-side value with Python ints
        raise NotImplementedError

    def sample(self, rng, asg):  # fill asg for own names
        raise NotImplementedError


class Const(Shape):
    """a fixed real object (None, Null, Full, NotImplemented, a class ...)"""

    def __init__(self, obj, src):
        self.obj = obj
        self.src = src
        self.names = []

    def make(self, ctx, env):
        return self.obj

    def concrete_src(self, asg):
        return self.src

    def concrete_spec(self, asg):
        return self.obj

    def sample(self, rng, asg):
        pass


class PyInt(Shape):
    def __init__(self, name, lo=None, hi=None, sample_lo=-300, sample_hi=300):
        self.name = name
        self.names = [name]
        self.lo, self.hi = lo, hi
        self.slo, self.shi = sample_lo, sample_hi

    def make(self, ctx, env):
        return env[self.name]

    def assume(self, env):
        c = []
        if self.lo is not None:
            c.append(env[self.name] >= self.lo)
        if self.hi is not None:
            c.append(env[self.name] <= self.hi)
        return sym.And(*c)

    def concrete_src(self, asg):
        return repr(asg[self.name])

    def concrete_spec(self, asg):
        return asg[self.name]

    def sample(self, rng, asg):
        lo = self.slo if self.lo is None else max(self.lo, self.slo)
        hi = self.shi if self.hi is None else min(self.hi, self.shi)
        r = rng.random()
        if r < 0.15:
            asg[self.name] = rng.choice([lo, hi, 0 if lo <= 0 <= hi else lo, 1 if lo <= 1 <= hi else lo, -1 if lo <= -1 <= hi else lo])
        elif r < 0.5:
            asg[self.name] = rng.randint(max(lo, -20), min(hi, 20)) if max(lo, -20) <= min(hi, 20) else rng.randint(lo, hi)
        else:
            asg[self.name] = rng.randint(lo, hi)


class PyBool(Shape):
    def __init__(self, name):
        self.name = name
        self.names = [name]

    def make(self, ctx, env):
        return env[self.name]

    def concrete_src(self, asg):
        return repr(bool(asg[self.name]))

    def concrete_spec(self, asg):
        return bool(asg[self.name])

    def sample(self, rng, asg):
        asg[self.name] = rng.random() < 0.5


def declare(names_sorts):
    return {n: (z3.Bool(n) if s == "bool" else z3.Int(n)) for n, s in names_sorts}


# ----------------------------------------------------------------------
# registry
# ----------------------------------------------------------------------
class Case:
    def __init__(self, name, args, spec, kwargs=None, requires=None, props=(), note="", native=True, max_width=10,
                 call=None, samples=None):
        self.name = name
        self.args = args  # list[Shape]; args[0] is self for methods
        self.kwargs = kwargs or {}
        self.spec = spec  # spec(sx, *values, **kwvalues)
        self.requires = requires  # env -> cond
        self.props = tuple(props)
        self.note = note
        self.native = native
        self.max_width = max_width
        self.call = call  # override: how to invoke natively, format string with {0} {1} ..
        self.samples = samples  # fn(rng, n, tier) -> iterable of assignments (e.g. exhaustive)
        self.n_quick = 200
        self.n_thorough = 5000
        self.bound = ""  # description of the bound when `samples` enumerates exhaustively

    def shapes(self):
        # extra_shapes: symbolic state that is not an argument (free variables of a nested function under contract)
        return list(self.args) + list(self.kwargs.values()) + list(getattr(self, "extra_shapes", []))

    def env(self):
        env = {}
        for s in self.shapes():
            for n in s.names:
                env[n] = z3.Bool(n) if isinstance(s, PyBool) else z3.Int(n)
        return env


class Contract:
    def __init__(self, qual, props, kind="method"):
        self.qual = qual
        self.props = tuple(props)
        self.cases: list[Case] = []
        self.kind = kind  # method | function | classmethod | staticmethod | property
        self.status = "proved"  # proved | assumed (bounded stand-in only)
        self.note = ""
        self.fn = None
        self.invoke = None  # native invocation template
        self.summary = None  # polymorphic spec used as call summary
        self.custom_fn = None  # native callable wrapping real code (bounded stand-ins)

    def resolve(self):
        if self.custom_fn is not None:
            self.fn = self.custom_fn
            return self.fn
        raw = loader.resolve(self.qual)
        self.raw = raw
        self.fn = loader.unwrap_function(raw)
        if not isinstance(self.fn, types.FunctionType):
            raise KeyError(f"{self.qual} does not resolve to a function")
        return self.fn


CONTRACTS: dict[str, Contract] = {}
LEMMAS: dict[str, "Lemma"] = {}


def contract(qual, props, status="proved", note="", fn=None):
    c = CONTRACTS.get(qual)
    if c is None:
        c = Contract(qual, props)
        CONTRACTS[qual] = c
    c.status = status
    c.note = note
    if fn is not None:
        c.custom_fn = fn
    c.props = tuple(sorted(set(c.props) | set(props)))
    return c


class Lemma:
    """ghost lemma: run(sx, ctx, env) must prove its goals for all env"""

    def __init__(self, name, props, env, body, requires=None):
        self.name, self.props, self.envspec, self.body, self.requires = name, tuple(props), env, body, requires


def lemma(name, props, env, requires=None):
    def deco(fn):
        LEMMAS[name] = Lemma(name, props, env, fn, requires)
        return fn

    return deco


# ----------------------------------------------------------------------
# using a spec as call summary
# ----------------------------------------------------------------------
def model_from_spec(spec, name="", copy_args=False):
    def model(it, *args, **kwargs):
        sx = SpecCtx(it.ctx, it)
        try:
            r = spec(sx, *args, **kwargs)
        except SpecRaise as e:
            raise PyExc(e.cls, (), where=f"contract of {name}")
        except SpecUnspecified:
            # the callee's contract says nothing here: the caller can only be
            # right if its own contract is silent on this path as well
            raise CalleeUnspecified(name)
        if isinstance(r, Effect):
            for idx, post in r.post.items():
                tgt = args[idx]
                if isinstance(tgt, SObj) and isinstance(post, SObj):
                    tgt.fields.update(post.fields)
            return r.result
        return r

    model.__name__ = f"model<{name}>"
    return model


def use_as_model(qual, spec):
    raw = loader.resolve(qual)
    fn = loader.unwrap_function(raw)
    I.register_model(fn, model_from_spec(spec, qual))
    return fn


def finalize():
    """resolve all contracts; contracts with a summary become call models"""
    for qual, con in CONTRACTS.items():
        fn = con.resolve()
        if con.custom_fn is None and con.summary is not None and id(fn) not in I.MODELS:
            I.register_model(fn, model_from_spec(con.summary, qual))


def inline(qual):
    raw = loader.resolve(qual)
    fn = loader.unwrap_function(raw)
    I.register_inline(fn)
    return fn


# ----------------------------------------------------------------------
# loop invariants (sidecar)
# ----------------------------------------------------------------------
class LoopSpec:
    """sidecar invariant for loop number `ordinal` (1-based, in execution
    order of loop statements inside one activation) of function `func_name`
    (the runtime __qualname__)."""

    has_measure = False

    def __init__(self, func_name, ordinal, prop="", name=""):
        self.key = (func_name, ordinal)
        self.prop = prop
        self.name = name or f"{func_name}#loop{ordinal}"
        I.LOOP_INVARIANTS[self.key] = self

    def oid(self, kind):
        return f"{self.name}#{kind}"

    def enter(self, it, frame, iterable):
        return {}

    def invariant(self, it, frame, st):
        return True

    def havoc(self, it, frame, st):
        pass

    def has_next(self, it, frame, st):
        raise NotImplementedError

    def next_item(self, it, frame, st):
        raise NotImplementedError

    def advance(self, it, frame, st):
        pass

    def measure(self, it, frame, st):
        return None
