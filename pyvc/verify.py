"""Run one contract case: symbolically (proof) and natively (cross-check)."""

from __future__ import annotations

import random
import time
import traceback

import z3

from . import contracts as C
from . import interp as I
from . import loader, sym
from .ctx import Explorer
from .values import Infeasible, OutsideSubset, PathEnd, PyExc, SObj


class CaseReport:
    def __init__(self, qual, case):
        self.qual = qual
        self.case = case.name
        self.status = "discharged"  # discharged | refuted | unknown | outside | error
        self.obligations = []  # dicts
        self.paths = 0
        self.secs = 0.0
        self.solver_secs = 0.0
        self.detail = ""
        self.refutations = []  # dict(oid, assignment, info)
        self.axioms = set()
        self.covered = False  # vacuity: requires satisfiable and at least one compared outcome
        self.native = None

    def oid(self, kind):
        return f"{self.qual}[{self.case}]#{kind}"


def _model_assignment(model, env):
    asg = {}
    for n, v in env.items():
        try:
            val = model.eval(v, model_completion=True)
            if z3.is_int_value(val):
                asg[n] = val.as_long()
            elif z3.is_true(val):
                asg[n] = True
            elif z3.is_false(val):
                asg[n] = False
        except Exception:
            pass
    return asg


def nested_closure(it, con, fn, case):
    """Closure for the nested def `con.nested` (a path of names) inside the real function `fn`"""
    import ast as _ast

    from . import loader
    from .values import Closure

    src = loader.from_code(fn.__code__)
    node = src.node
    for name in con.nested:
        # a path element is a name (must be unique below the current node) or (name, k): the k-th def of
        # that name in source order
        name, idx = name if isinstance(name, tuple) else (name, None)
        found = [n for n in _ast.walk(node) if isinstance(n, (_ast.FunctionDef, _ast.AsyncFunctionDef)) and n.name == name and n is not node]
        found.sort(key=lambda n: (n.lineno, n.col_offset))
        if idx is None and len(found) != 1:
            raise I.OutsideSubset(f"nested function {name} not found exactly once in {fn.__qualname__}")
        if idx is not None and idx >= len(found):
            raise I.OutsideSubset(f"nested function {name}#{idx} not found in {fn.__qualname__}")
        node = found[idx or 0]
    free = case.nested_env(it) if getattr(case, "nested_env", None) else {}
    frame = I.Frame(dict(free), None, fn.__globals__, fn.__qualname__)
    defaults = [it.eval(d, frame) for d in node.args.defaults]
    kwdefaults = {a.arg: it.eval(d, frame) for a, d in zip(node.args.kwonlyargs, node.args.kw_defaults) if d is not None}
    path = ".".join(n if isinstance(n, str) else f"{n[0]}#{n[1]}" for n in con.nested)
    return Closure(node, frame, f"{fn.__qualname__}.<locals>.{path}", defaults, kwdefaults)


def verify_case(con: C.Contract, case: C.Case, timeout_ms=10000) -> CaseReport:
    rep = CaseReport(con.qual, case)
    t0 = time.time()
    fn = con.fn
    env = case.env()
    ex = Explorer(timeout_ms=timeout_ms)
    compared = [0]

    def run(ctx):
        for s in case.shapes():
            ctx.assume(sym.to_z3(s.assume(env)) if s.assume(env) is not True else True)
        if case.requires is not None:
            r = case.requires(env)
            if r is not True:
                ctx.assume(sym.to_z3(r))
        if not ctx.feasible():
            raise Infeasible()
        args1 = [s.make(ctx, env) for s in case.args]
        kw1 = {k: s.make(ctx, env) for k, s in case.kwargs.items()}
        args2 = [s.make(ctx, env) for s in case.args]
        kw2 = {k: s.make(ctx, env) for k, s in case.kwargs.items()}
        it = I.Interp(ctx, target_ids={id(fn)})
        it.case_env = env
        for k, v in getattr(case, "interp_flags", {}).items():
            setattr(it, k, v)
        ctx.arith_hints = bool(getattr(case, "interp_flags", {}).get("arith_hints", False))
        it.local_models = {id(f): m for f, m in getattr(case, "models", [])}
        if getattr(case, "setup", None) is not None:
            case.setup(it, ctx, args1, env)
        try:
            if getattr(con, "nested", None) is not None:
                # the function under contract is a nested def of `fn`: its AST is taken from fn's source and
                # run as a closure whose free variables are provided by the contract (con.nested_env)
                rv = it.call_closure(nested_closure(it, con, fn, case), args1, kw1)
            else:
                rv = it.interpret_function(fn, args1, kw1)
            real = ("return", rv)
        except PyExc as e:
            real = ("raise", e.cls)
        except C.CalleeUnspecified as e:
            real = ("callee-unspecified", e.name)
        if getattr(case, "on_exit", None) is not None:
            # frame / exception-safety obligations: checked on EVERY exit, normal or exceptional
            compared[0] += 1
            case.on_exit(it, ctx, real, rep)
        sx = C.SpecCtx(ctx, it)
        sx.oid_prefix = rep.oid("")  # for intermediate proof steps (sx.have)
        sx.real_args = args1  # for identity (aliasing) clauses of a contract
        sx.real_kwargs = kw1
        try:
            sv = case.spec(sx, *args2, **kw2)
            spec = ("return", sv)
        except C.SpecRaise as e:
            spec = ("raise", e.cls)
        except C.SpecUnspecified:
            return None
        if real[0] == "callee-unspecified":
            ctx.prove(f"call.pre/{real[1]}", False, real="call outside the callee's contract domain", spec=repr(spec)[:160])
            return None
        compared[0] += 1
        if spec[0] == "raise":
            if real[0] == "raise":
                ok = isinstance(real[1], type) and issubclass(real[1], spec[1])
                ctx.prove(rep.oid("post.raises"), bool(ok), real=str(real[1]), spec=str(spec[1]))
            else:
                ctx.prove(rep.oid("post.raises"), False, real="returned " + repr(real[1])[:120], spec=str(spec[1]))
        else:
            if real[0] == "raise":
                mr = getattr(sx, "path_may_reject", None) or getattr(case, "may_reject", None)
                if mr is not None and isinstance(real[1], type) and issubclass(real[1], mr):
                    # the contract allows a compile-time rejection here
                    ctx.rejected_paths = getattr(ctx, "rejected_paths", 0) + 1
                    ctx.prove(rep.oid("post.value"), True)
                else:
                    ctx.prove(rep.oid("post.noraise"), False, real="raised " + str(real[1]), spec=repr(spec[1])[:120])
            else:
                sv = spec[1]
                if isinstance(sv, C.Effect):
                    for idx, post in sv.post.items():
                        if not getattr(case, "symbolic_effects", True):
                            continue  # effect is bit-level: bounded native check only
                        ctx.prove(rep.oid(f"post.effect{idx}"), C.veq(it, args1[idx], post), real=repr(args1[idx])[:160], spec=repr(post)[:160])
                    sv = sv.result
                ctx.prove(rep.oid("post.value"), C.veq(it, real[1], sv), real=repr(real[1])[:200], spec=repr(sv)[:200])
        return None

    try:
        outcomes = ex.explore(run)
    except OutsideSubset as e:
        rep.status = "outside"
        rep.detail = str(e)
        rep.secs = time.time() - t0
        return rep
    except Exception as e:
        rep.status = "error"
        rep.detail = "".join(traceback.format_exception(type(e), e, e.__traceback__))[-1500:]
        rep.secs = time.time() - t0
        return rep

    agg = {}
    for o in outcomes:
        rep.paths += 1
        rep.solver_secs += o.ctx.solver_secs
        rep.axioms |= o.ctx.axioms_used
        rep.rejected_paths = getattr(rep, "rejected_paths", 0) + getattr(o.ctx, "rejected_paths", 0)
        if o.kind == "raise":
            # exception escaped outside of the compared region (spec code itself)
            rep.status = "error"
            rep.detail = f"uncaught {o.exc}"
        for r in o.ctx.results:
            a = agg.setdefault(r.oid, {"oid": r.oid, "status": "discharged", "vcs": 0, "backend": set(), "secs": 0.0, "sample_goal": r.goal})
            a["vcs"] += 1
            a["backend"].add(r.backend)
            a["secs"] += r.secs
            if r.status == "refuted":
                a["status"] = "refuted"
                rep.refutations.append({"oid": r.oid, "assignment": _model_assignment(r.model, env), "info": r.info, "goal": r.goal})
            elif r.status == "unknown" and a["status"] != "refuted":
                a["status"] = "unknown"
    for a in agg.values():
        a["backend"] = sorted(a["backend"])
        rep.obligations.append(a)
    rep.covered = compared[0] > 0
    if getattr(case, "loop_only", None):
        # a function whose loop never exits (`while True:` of a coroutine): no path reaches a return; the case is
        # covered when the named loop obligation was generated on at least one path
        rep.covered = any(a["oid"].endswith(case.loop_only) for a in agg.values())
    if rep.status not in ("error",):
        if any(a["status"] == "refuted" for a in agg.values()):
            rep.status = "refuted"
        elif any(a["status"] == "unknown" for a in agg.values()):
            rep.status = "unknown"
        elif not rep.covered:
            rep.status = "vacuous"
            rep.detail = "no feasible path reached a comparison (requires unsatisfiable or domain empty)"
    rep.secs = time.time() - t0
    return rep


# ----------------------------------------------------------------------
# native cross-check / bounded stand-in
# ----------------------------------------------------------------------
REAL_VIEW = {}  # kind class -> fn(real_obj) -> dict(params..., fields...)


def match_real(spec, real) -> bool:
    if spec is C.ANY:
        return True
    if isinstance(spec, C.Pred):
        if spec.native is not None:
            return bool(spec.native(real))
        return True  # predicate has no native counterpart
    if isinstance(spec, bool):
        return type(real) is bool and real == spec
    if isinstance(spec, int):
        return type(real) is int and real == spec
    if isinstance(spec, SObj):
        kind = spec.kind
        base = None
        for k in REAL_VIEW:
            if issubclass(kind, k) and (base is None or issubclass(k, base)):
                base = k
        if base is None:
            return False
        view = REAL_VIEW[base](real, kind)
        if view is None:
            return False
        want = dict(spec.cls.params) if isinstance(spec.cls, C.SCls) else {}
        want.update(spec.fields)
        for k, v in want.items():
            if k not in view:
                return False
            if isinstance(v, SObj):
                if not match_real(v, view[k]):
                    return False
            elif view[k] != v or (isinstance(v, bool) != isinstance(view[k], bool)):
                return False
        return True
    if isinstance(spec, C.SCls):
        for k in REAL_VIEW:
            if issubclass(spec.kind, k):
                v = REAL_VIEW[k](real, spec.kind, is_class=True)
                return v is not None and all(v.get(p) == x for p, x in spec.params.items())
        return False
    if isinstance(spec, (tuple, list)):
        return type(real) is type(spec) and len(real) == len(spec) and all(match_real(a, b) for a, b in zip(spec, real))
    if isinstance(spec, str):
        return isinstance(real, str) and real == spec
    return real is spec


def run_native_once(con, case, asg, ns):
    """execute the real function on one concrete assignment and compare with
    the spec.  -> (verdict, detail) verdict in ok | mismatch | unspecified | skip"""
    env = case.env()
    fn = con.fn
    try:
        real_args = [eval(s.concrete_src(asg), ns) for s in case.args]
        real_kw = {k: eval(s.concrete_src(asg), ns) for k, s in case.kwargs.items()}
        spec_args = [s.concrete_spec(asg) for s in case.args]
        spec_kw = {k: s.concrete_spec(asg) for k, s in case.kwargs.items()}
    except Exception as e:
        return "skip", f"cannot build input: {type(e).__name__}: {e}"
    if case.requires is not None and _eval_requires(case, env, asg) is False:
        return "skip", "outside requires"
    sx = C.SpecCtx(None, None)
    try:
        sv = ("return", case.spec(sx, *spec_args, **spec_kw))
    except C.SpecRaise as e:
        sv = ("raise", e.cls)
    except C.SpecUnspecified:
        return "unspecified", ""
    try:
        rv = ("return", fn(*real_args, **real_kw))
    except Exception as e:
        rv = ("raise", type(e))
    ok = True
    if sv[0] == "raise":
        ok = rv[0] == "raise" and issubclass(rv[1], sv[1])
    else:
        if rv[0] == "raise":
            mr = getattr(sx, "path_may_reject", None) or getattr(case, "may_reject", None)
            ok = mr is not None and issubclass(rv[1], mr)
        else:
            want = sv[1]
            if isinstance(want, C.Effect):
                for idx, post in want.post.items():
                    if not match_real(post, real_args[idx]):
                        ok = False
                want = want.result
            if ok:
                ok = match_real(want, rv[1])
    detail = {"real": _short(rv), "spec": _short(sv), "rejected": sv[0] == "raise"}
    return ("ok" if ok else "mismatch"), detail


def native_case(con: C.Contract, case: C.Case, n_samples, rng, ns, tier="quick"):
    """execute the real function on concrete inputs; compare with the spec"""
    stats = {"evaluations": 0, "distinct": set(), "mismatches": [], "unspecified": 0, "rejected_both": 0, "exhaustive": False, "bound": case.bound, "sample": None}

    def assignments():
        if case.samples is not None:
            stats["exhaustive"] = True
            yield from case.samples(rng, n_samples, tier)
            return
        for _ in range(n_samples):
            asg = {}
            for s in case.shapes():
                s.sample(rng, asg)
            yield asg

    for asg in assignments():
        verdict, detail = run_native_once(con, case, asg, ns)
        if verdict == "skip":
            continue
        if verdict == "unspecified":
            stats["unspecified"] += 1
            continue
        stats["evaluations"] += 1
        stats["distinct"].add(tuple(sorted(asg.items())))
        if stats["sample"] is None and not detail["rejected"]:
            stats["sample"] = {"input": dict(asg), "real": detail["real"]}
        if detail["rejected"] and verdict == "ok":
            stats["rejected_both"] += 1
        if verdict == "mismatch":
            stats["mismatches"].append({"assignment": dict(asg), "real": detail["real"], "spec": detail["spec"]})
            if len(stats["mismatches"]) >= 5:
                break
    return stats


class _Skip(Exception):
    pass


def _short(x):
    try:
        return repr(x)[:200]
    except Exception:
        return "<unrepr>"


def _eval_requires(case, env, asg):
    cond = case.requires(env)
    if cond is True:
        return True
    subs = [(env[n], z3.BoolVal(v) if isinstance(v, bool) else z3.IntVal(v)) for n, v in asg.items() if n in env]
    # concrete pow2: rewrite pow2(c) applications
    e = z3.substitute(sym.to_z3(cond), *subs)
    e = _fold_pow2(e)
    r = z3.simplify(e)
    if z3.is_true(r):
        return True
    if z3.is_false(r):
        return False
    return None


def _fold_pow2(e):
    e = z3.simplify(e)
    changed = True
    n = 0
    while changed and n < 8:
        changed = False
        n += 1
        subs = []
        stack = [e]
        seen = set()
        while stack:
            t = stack.pop()
            if t.get_id() in seen:
                continue
            seen.add(t.get_id())
            if z3.is_app(t):
                if t.decl().eq(sym.P2) and z3.is_int_value(t.arg(0)):
                    v = t.arg(0).as_long()
                    if 0 <= v < 4096:
                        subs.append((t, z3.IntVal(2**v)))
                stack.extend(t.children())
        if subs:
            e = z3.simplify(z3.substitute(e, *subs))
            changed = True
    return e
