"""setup check: tools present, /repo importable, engine sane (one proof that
must succeed and one mutation that must be refuted)."""

import os
import subprocess
import sys

VERIF = os.path.dirname(os.path.dirname(os.path.abspath(__file__)))
sys.path.insert(0, VERIF)


def main():
    import z3

    print("z3", z3.get_version_string())
    out = subprocess.run(["/usr/bin/cvc5", "--version"], capture_output=True, text=True)
    print(out.stdout.split("\n")[0])
    from pyvc import REPO

    sys.path.insert(0, REPO)
    import cohdl  # noqa

    print("cohdl from", os.path.dirname(cohdl.__file__))
    assert os.path.exists("/venv/bin/python")
    import importlib

    for m in ("contracts.core_models", "contracts.c09_arith"):
        importlib.import_module(m)
    from pyvc import contracts as C
    from pyvc import verify

    C.finalize()
    con = C.CONTRACTS["cohdl._core._unsigned:Unsigned.__mul__"]
    rep = verify.verify_case(con, con.cases[0])
    print("Unsigned.__mul__[vec]:", rep.status)
    if rep.status != "discharged":
        print(rep.detail)
        return 1
    # a contradictory precondition must not count as success
    case = C.Case("vacuous", con.cases[0].args, con.cases[0].spec, requires=lambda env: env["w1"] < 0)
    rep = verify.verify_case(con, case)
    print("vacuity guard:", rep.status)
    if rep.status != "vacuous":
        return 1
    print("selftest ok")
    return 0


if __name__ == "__main__":
    sys.exit(main())
