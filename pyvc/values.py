"""Value model of the symbolic interpreter (DESIGN.md 2.2).

Concrete Python objects stand for themselves.  Symbolic ints / bools are z3
terms.  Everything else symbolic is one of the classes below.
"""

from __future__ import annotations

import z3

from . import sym


class OutsideSubset(Exception):
    """construct / call outside the supported subset: the run is undecided"""


class Infeasible(Exception):
    """current path condition became unsatisfiable"""


class PathEnd(Exception):
    """path deliberately cut (after an inv.step obligation)"""


class PyExc(Exception):
    """an exception raised by the interpreted program"""

    def __init__(self, cls, args=(), where=None):
        super().__init__(f"{getattr(cls, '__name__', cls)} at {where}")
        self.cls = cls
        self.eargs = args
        self.where = where


class SCls:
    """a parametrised class with symbolic parameters, e.g. Unsigned[w]"""

    def __init__(self, kind, **params):
        self.kind = kind
        self.params = params

    def __repr__(self):
        ps = ",".join(f"{k}={v}" for k, v in self.params.items())
        return f"{self.kind.__name__}[{ps}]"


class SObj:
    """symbolic instance: `cls` is a real class or an SCls; `fields` holds the
    ghost view (e.g. val) and any attribute stored by interpreted code"""

    _cnt = 0

    def __init__(self, cls, **fields):
        self.cls = cls
        self.fields = dict(fields)
        SObj._cnt += 1
        self.uid = SObj._cnt

    @property
    def kind(self):
        return self.cls.kind if isinstance(self.cls, SCls) else self.cls

    def __repr__(self):
        def short(v):
            if isinstance(v, SObj):
                c = v.cls
                return f"<{c.kind.__name__ if isinstance(c, SCls) else getattr(c, '__name__', c)}#{v.uid}>"
            if isinstance(v, (list, tuple, dict)):
                return f"{type(v).__name__}[{len(v)}]"
            return str(v)

        fs = ",".join(f"{k}={short(v)}" for k, v in self.fields.items())
        cn = repr(self.cls) if isinstance(self.cls, SCls) else getattr(self.cls, "__name__", "?")
        return f"<{cn}#{self.uid} {fs}>"


class Opaque:
    """value the interpreter does not look into (bit-level data, text of an
    operand ...).  Operations on it give Opaque results; branching on it is
    outside the subset."""

    def __init__(self, tag, *deps):
        self.tag = tag
        self.deps = deps

    def __repr__(self):
        return f"Opaque({self.tag})"


class SFmt:
    """structured text: a sequence of literal str pieces and embedded values"""

    def __init__(self, parts):
        flat = []
        for p in parts:
            if isinstance(p, SFmt):
                flat.extend(p.parts)
            else:
                flat.append(p)
        merged = []
        for p in flat:
            if isinstance(p, str) and merged and isinstance(merged[-1], str):
                merged[-1] += p
            elif isinstance(p, str) and p == "":
                continue
            else:
                merged.append(p)
        self.parts = merged

    def __repr__(self):
        return "SFmt(" + " ".join(repr(p) for p in self.parts) + ")"


class SRepeat:
    """text piece: `unit` repeated `count` times (count symbolic)"""

    def __init__(self, unit, count):
        self.unit = unit
        self.count = count

    def __repr__(self):
        return f"SRepeat({self.unit!r}*{self.count})"


class TextOf:
    """text piece: str() of a symbolic value (z3 int, SObj ...)"""

    def __init__(self, value, how="str"):
        self.value = value
        self.how = how

    def __repr__(self):
        return f"TextOf({self.value!r})"


class BoundMethod:
    def __init__(self, fn, self_obj):
        self.fn = fn
        self.self_obj = self_obj

    def __repr__(self):
        return f"<bound {self.fn} of {self.self_obj}>"


class Closure:
    """function defined by interpreted code (def / lambda)"""

    def __init__(self, node, frame, qualname, defaults, kwdefaults, src=None):
        self.node = node
        self.frame = frame
        self.qualname = qualname
        self.defaults = defaults
        self.kwdefaults = kwdefaults
        self.src = src

    def __repr__(self):
        return f"<closure {self.qualname}>"


class SuperProxy:
    def __init__(self, cls, obj):
        self.cls = cls
        self.obj = obj


class FloatDiv:
    """a / b on ints (an IEEE double): only int(...) of it is supported"""

    def __init__(self, a, b):
        self.a = a
        self.b = b


def contains_symbolic(v, depth=0) -> bool:
    if sym.is_sym(v) or isinstance(
        v, (SObj, SCls, Opaque, SFmt, BoundMethod, Closure, SuperProxy, FloatDiv, SRepeat, TextOf)
    ):
        return True
    if type(v).__name__ in ("SStr", "SSet"):
        return True
    if depth > 4:
        return False
    if isinstance(v, (list, tuple, set, frozenset)):
        return any(contains_symbolic(x, depth + 1) for x in v)
    if isinstance(v, dict):
        return any(
            contains_symbolic(k, depth + 1) or contains_symbolic(x, depth + 1)
            for k, x in v.items()
        )
    if isinstance(v, slice):
        return any(contains_symbolic(x, depth + 1) for x in (v.start, v.stop, v.step))
    return False


class SStr:
    """symbolic string: a term of the uninterpreted sort Str (sym.StrS);
    lower / strip / concatenation / str(int) are uninterpreted functions"""

    def __init__(self, term):
        self.term = term

    def __repr__(self):
        return f"SStr({self.term})"


class SSet:
    """symbolic set of strings (z3 Array Str -> Bool); mutable like a Python set"""

    def __init__(self, term):
        self.term = term

    def __repr__(self):
        return f"SSet({self.term})"
