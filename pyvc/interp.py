"""Symbolic interpreter for the Python subset (DESIGN.md 2.2).

Interprets the *real* AST of functions in /repo.  Unsupported constructs
raise OutsideSubset (run undecided), never a silent approximation.
"""

from __future__ import annotations

import ast
import builtins
import importlib
import inspect
import types

import z3

from . import loader, sym
from .values import (
    BoundMethod,
    Closure,
    FloatDiv,
    Infeasible,
    Opaque,
    OutsideSubset,
    PathEnd,
    PyExc,
    SCls,
    SFmt,
    SObj,
    SRepeat,
    SuperProxy,
    TextOf,
    contains_symbolic,
)


class _Return(Exception):
    def __init__(self, value):
        self.value = value


class _Break(Exception):
    pass


class _Continue(Exception):
    pass


class Frame:
    def __init__(self, locals_, enclosing, globals_, func_name, module=None, cls=None):
        self.locals = locals_
        self.enclosing = enclosing
        self.globals = globals_
        self.func_name = func_name
        self.module = module
        self.nonlocals: set[str] = set()
        self.globals_decl: set[str] = set()
        self.cls = cls  # class that owns the method (for super())
        self.self_obj = None
        self.loop_ordinal = 0


_MISSING = object()

# registries filled by pyvc.contracts
MODELS: dict = {}  # real function object (id) -> model callable(interp, *args, **kw)
MODEL_BY_ID: dict = {}
INLINE: set = set()  # ids of real functions that may be interpreted at call sites
ATTR_MODELS: dict = {}  # kind class -> callable(interp, obj, name) -> value | _MISSING
CLS_ATTR_MODELS: dict = {}  # kind class -> callable(interp, scls, name)
CTOR_MODELS: dict = {}  # kind class -> callable(interp, cls_value, *args, **kw)
SUBSCRIPT_MODELS: dict = {}  # kind class -> callable(interp, cls_value, key)
LOOP_INVARIANTS: dict = {}  # (qualname, ordinal) -> LoopSpec
CLOSURE_MODELS: dict = {}  # qualname of a nested function -> summary used for its recursive calls
CLOSURE_ENTRY_HOOKS: dict = {}  # qualname -> hook(it, closure, args, kwargs, node) wrapping the first (outermost) call
OPAQUE_CLASSES: set = set()  # classes whose instances / methods are bit-level data: calls give Opaque
OPAQUE_FUNCS: dict = {}  # id(callable) -> tag: calls give Opaque (assumed not to raise; listed as assumption)


def register_model(fn_obj, model):
    MODELS[id(fn_obj)] = model
    MODEL_BY_ID[id(fn_obj)] = fn_obj


def register_inline(fn_obj):
    INLINE.add(id(fn_obj))


class Interp:
    def __init__(self, ctx, target_ids=(), trace_calls=None):
        self.ctx = ctx
        self.target_ids = set(target_ids)  # functions being verified: body interpreted
        self.calls_seen = trace_calls if trace_calls is not None else []
        self.depth = 0

    # ------------------------------------------------------------------
    # helpers
    # ------------------------------------------------------------------
    def raise_(self, cls, *args, node=None):
        import os

        if os.environ.get("PYVC_DEBUG_EXC") and cls.__name__ in os.environ["PYVC_DEBUG_EXC"]:
            import traceback

            print("DEBUG raise", cls.__name__, args, "line", getattr(node, "lineno", None))
            traceback.print_stack(limit=6)
        raise PyExc(cls, args, where=getattr(node, "lineno", None))

    def outside(self, msg, node=None):
        ln = getattr(node, "lineno", "?")
        raise OutsideSubset(f"{msg} (line {ln})")

    def truth(self, v, node=None) -> bool:
        if isinstance(v, bool):
            return v
        if v is None:
            return False
        if isinstance(v, z3.BoolRef):
            return self.ctx.branch(v)
        if isinstance(v, z3.ArithRef):
            return self.ctx.branch(v != 0)
        if isinstance(v, (int, str, list, tuple, dict, set, frozenset, range)):
            return bool(v)
        if isinstance(v, SObj):
            b = self.lookup_special(v, "__bool__")
            if b is not _MISSING:
                return self.truth(self.call(b, [], {}, node), node)
            ln = self.lookup_special(v, "__len__")
            if ln is not _MISSING:
                return self.truth(self.call(ln, [], {}, node), node)
            return True
        if type(v).__name__ == "SSet":
            # a symbolic set is true iff it is not empty
            return self.ctx.branch(z3.Not(v.term == z3.EmptySet(v.term.sort().domain())))
        if isinstance(v, (SCls, BoundMethod, Closure)):
            return True
        if isinstance(v, SFmt):
            return True if any(isinstance(p, str) and p for p in v.parts) else self.outside("truth of text", node)
        if isinstance(v, Opaque):
            self.outside(f"branch on opaque value {v.tag}", node)
        if isinstance(v, FloatDiv):
            self.outside("truth of float", node)
        try:
            return bool(v)
        except PyExc:
            raise
        except Exception as e:  # real __bool__ of a concrete object
            self.outside(f"bool() of {type(v).__name__}: {e}", node)

    # ------------------------------------------------------------------
    # class / instance model
    # ------------------------------------------------------------------
    @staticmethod
    def kind_of_cls(c):
        return c.kind if isinstance(c, SCls) else c

    def type_of(self, v):
        if isinstance(v, SObj):
            return v.cls
        if isinstance(v, z3.BoolRef):
            return bool
        if isinstance(v, z3.ArithRef):
            return int
        if isinstance(v, SCls):
            return type(v.kind)
        if isinstance(v, SFmt):
            return str
        if isinstance(v, (Opaque, Closure, BoundMethod)):
            self.outside(f"type() of {v!r}")
        return type(v)

    def is_subclass(self, c, target, node=None):
        """issubclass(c, target) -> bool | z3 Bool"""
        if isinstance(target, tuple):
            return sym.Or(*[self.is_subclass(c, t, node) for t in target])
        if isinstance(target, types.UnionType):
            return sym.Or(*[self.is_subclass(c, t, node) for t in target.__args__])
        if isinstance(c, Opaque) or isinstance(target, Opaque):
            self.outside("issubclass on opaque", node)
        ck = self.kind_of_cls(c)
        tk = self.kind_of_cls(target)
        if not isinstance(ck, type) or not isinstance(tk, type):
            self.outside(f"issubclass({c!r}, {target!r})", node)
        if not issubclass(ck, tk):
            # a parametrised Unsigned[w] is also a subclass of BitVector[w]
            return False
        tparams = self.class_params(target)
        if not tparams:
            return True
        cparams = self.class_params(c)
        if not cparams:
            return False
        conds = []
        for k, tv in tparams.items():
            if k not in cparams:
                return False
            conds.append(sym.eq(cparams[k], tv))
        return sym.And(*conds)

    def class_params(self, c) -> dict:
        """parameters of a (possibly real) parametrised class"""
        if isinstance(c, SCls):
            return c.params
        for kind, fn in CLS_ATTR_MODELS.items():
            if isinstance(c, type) and issubclass(c, kind):
                p = fn(self, c, "__params__")
                if p is not _MISSING:
                    return p
        return {}

    def same_class(self, a, b):
        """a is b for class values"""
        if a is b:
            return True
        if isinstance(a, SCls) or isinstance(b, SCls):
            ka, kb = self.kind_of_cls(a), self.kind_of_cls(b)
            if not (isinstance(ka, type) and isinstance(kb, type)):
                return False
            if self.base_kind(a) is not self.base_kind(b):
                return False
            pa, pb = self.class_params(a), self.class_params(b)
            if set(pa) != set(pb):
                return False
            from . import ops

            conds = []
            for k in pa:
                x, y = pa[k], pb[k]
                if sym.is_intlike(x) and sym.is_intlike(y):
                    conds.append(sym.eq(x, y))
                else:
                    conds.append(ops.identical(self, x, y))
            return sym.And(*conds)
        return False

    def base_kind(self, c):
        """the unparametrised class (Unsigned for Unsigned[4])"""
        if isinstance(c, SCls):
            return c.kind
        for kind, fn in CLS_ATTR_MODELS.items():
            if isinstance(c, type) and issubclass(c, kind):
                b = fn(self, c, "__base_kind__")
                if b is not _MISSING:
                    return b
        return c

    def is_instance(self, v, target, node=None):
        if isinstance(target, tuple):
            return sym.Or(*[self.is_instance(v, t, node) for t in target])
        if isinstance(target, types.UnionType):
            return sym.Or(*[self.is_instance(v, t, node) for t in target.__args__])
        if isinstance(v, SObj):
            return self.is_subclass(v.cls, target, node)
        if isinstance(v, z3.BoolRef):
            return target in (bool, int, object)
        if isinstance(v, z3.ArithRef):
            return target in (int, object)
        if isinstance(v, SCls):
            tk = self.kind_of_cls(target)
            return isinstance(v.kind, tk) if isinstance(tk, type) else False
        if isinstance(v, SFmt):
            return target in (str, object)
        if isinstance(v, FloatDiv):
            return target in (float, object)
        if isinstance(v, Closure):
            return target in (types.FunctionType, object)
        if isinstance(v, (Opaque, BoundMethod)):
            self.outside(f"isinstance of {v!r}", node)
        if isinstance(target, SCls):
            return False
        return isinstance(v, target)

    def static_lookup(self, kind, name):
        """raw class attribute through the real MRO"""
        for k in kind.__mro__:
            if name in k.__dict__:
                return k.__dict__[name], k
        return _MISSING, None

    def lookup_special(self, obj, name):
        """bound special method of an SObj through its class, or _MISSING"""
        raw, owner = self.static_lookup(obj.kind, name)
        if raw is _MISSING or raw is None:
            return _MISSING
        if owner is object:
            return _MISSING
        return self.bind(raw, obj, owner)

    def bind(self, raw, obj, owner):
        if isinstance(raw, staticmethod):
            return raw.__func__
        if isinstance(raw, classmethod):
            cls = obj.cls if isinstance(obj, SObj) else obj
            return BoundMethod(raw.__func__, cls)
        if isinstance(raw, types.FunctionType):
            return BoundMethod(raw, obj)
        if raw is object.__init__:
            return lambda *a, **k: None  # super().__init__() reaching object: no effect
        return raw

    def get_attr(self, obj, name, node=None):
        ctx = self.ctx
        if isinstance(obj, SObj):
            if name in obj.fields:
                return obj.fields[name]
            if name == "__class__":
                return obj.cls
            for kind, fn in ATTR_MODELS.items():
                if issubclass(obj.kind, kind):
                    r = fn(self, obj, name)
                    if r is not _MISSING:
                        return r
            raw, owner = self.static_lookup(obj.kind, name)
            if raw is _MISSING:
                # metaclass-level / parametrised class attribute
                r = self.get_cls_attr(obj.cls, name, node, missing_ok=True)
                if r is not _MISSING:
                    return r
                self.raise_(AttributeError, name, node=node)
            if isinstance(raw, property):
                if raw.fget is None:
                    self.raise_(AttributeError, name, node=node)
                return self.call(BoundMethod(raw.fget, obj), [], {}, node)
            if isinstance(raw, (staticmethod, classmethod, types.FunctionType)):
                return self.bind(raw, obj, owner)
            # plain class attribute; parametrised classes may override
            r = self.get_cls_attr(obj.cls, name, node, missing_ok=True)
            if r is not _MISSING:
                return r
            return raw
        if isinstance(obj, SCls):
            return self.get_cls_attr(obj, name, node)
        if isinstance(obj, SuperProxy):
            mro = obj.obj.kind.__mro__ if isinstance(obj.obj, SObj) else self.kind_of_cls(obj.obj).__mro__
            idx = mro.index(obj.cls)
            for k in mro[idx + 1 :]:
                if name in k.__dict__:
                    raw = k.__dict__[name]
                    if isinstance(raw, property):
                        return self.call(BoundMethod(raw.fget, obj.obj), [], {}, node)
                    return self.bind(raw, obj.obj, k)
            self.raise_(AttributeError, name, node=node)
        if isinstance(obj, (z3.ArithRef, z3.BoolRef)):
            if name in ("bit_length", "bit_count", "__index__", "__int__"):
                return BoundMethod(("int", name), obj)
            self.outside(f"int attribute {name}", node)
        if isinstance(obj, Opaque):
            return Opaque(f"{obj.tag}.{name}", obj)
        if type(obj).__name__ == "SStr":
            if name in ("lower", "strip"):
                return BoundMethod(("sstr", name), obj)
            self.outside(f"string method {name}", node)
        if type(obj).__name__ == "SSet":
            if name in ("add", "copy", "discard", "difference_update", "update", "intersection_update"):
                return BoundMethod(("sset", name), obj)
            self.outside(f"set method {name}", node)
        if isinstance(obj, SFmt):
            if name in ("lower", "strip", "upper"):
                return BoundMethod(("sfmt", name), obj)
            self.outside(f"text attribute {name}", node)
        if isinstance(obj, (Closure, BoundMethod)):
            self.outside(f"attribute {name} of function", node)
        key = (id(obj), name)
        if key in ctx.attr_overlay:
            return ctx.attr_overlay[key][1]
        if isinstance(obj, types.ModuleType):
            gk = (obj.__name__, name)
            if gk in ctx.global_overlay:
                return ctx.global_overlay[gk]
        if isinstance(obj, int) and not isinstance(obj, bool) and name in ("bit_length", "bit_count"):
            return getattr(obj, name)
        try:
            if isinstance(obj, type):
                raw = inspect.getattr_static(obj, name, _MISSING)
                if isinstance(raw, types.FunctionType):
                    return raw
                if isinstance(raw, staticmethod):
                    return raw.__func__
                if isinstance(raw, classmethod):
                    return BoundMethod(raw.__func__, obj)
            else:
                raw = inspect.getattr_static(type(obj), name, _MISSING)
                if isinstance(raw, types.FunctionType) and self.is_repo_function(raw):
                    if isinstance(inspect.getattr_static(obj, name, _MISSING), types.FunctionType):
                        return BoundMethod(raw, obj)
                if isinstance(raw, property) and self.is_repo_function(raw.fget):
                    return self.call(BoundMethod(raw.fget, obj), [], {}, node)
            return getattr(obj, name)
        except AttributeError:
            self.raise_(AttributeError, name, node=node)

    def get_cls_attr(self, cls, name, node=None, missing_ok=False):
        kind = self.kind_of_cls(cls)
        for k, fn in CLS_ATTR_MODELS.items():
            if isinstance(kind, type) and issubclass(kind, k):
                r = fn(self, cls, name)
                if r is not _MISSING:
                    return r
        if isinstance(cls, SCls):
            raw, owner = self.static_lookup(kind, name)
            if raw is _MISSING:
                # metaclass attributes (properties / methods on the metaclass)
                mraw, mowner = self.static_lookup(type(kind), name)
                if mraw is _MISSING:
                    if missing_ok:
                        return _MISSING
                    self.raise_(AttributeError, name, node=node)
                if isinstance(mraw, property):
                    return self.call(BoundMethod(mraw.fget, cls), [], {}, node)
                if isinstance(mraw, types.FunctionType):
                    return BoundMethod(mraw, cls)
                return mraw
            if isinstance(raw, classmethod):
                return BoundMethod(raw.__func__, cls)
            if isinstance(raw, staticmethod):
                return raw.__func__
            return raw
        if missing_ok:
            return _MISSING
        return getattr(cls, name)

    def has_attr(self, obj, name, node=None):
        if isinstance(obj, SObj):
            if name in obj.fields:
                return True
            raw, _ = self.static_lookup(obj.kind, name)
            if raw is not _MISSING:
                return True
            try:
                self.get_attr(obj, name, node)
                return True
            except PyExc as e:
                if e.cls is AttributeError:
                    return False
                raise
        if isinstance(obj, SCls):
            try:
                self.get_cls_attr(obj, name, node)
                return True
            except PyExc as e:
                if e.cls is AttributeError:
                    return False
                raise
        if isinstance(obj, (z3.ArithRef, z3.BoolRef)):
            return hasattr(0, name)
        if isinstance(obj, Opaque):
            self.outside("hasattr on opaque", node)
        if isinstance(obj, SFmt):
            return hasattr("", name)
        return hasattr(obj, name)

    def set_attr(self, obj, name, value, node=None):
        if isinstance(obj, SObj):
            raw, owner = self.static_lookup(obj.kind, name)
            if isinstance(raw, property):
                if raw.fset is None:
                    self.raise_(AttributeError, name, node=node)
                self.call(BoundMethod(raw.fset, obj), [value], {}, node)
                return
            obj.fields[name] = value
            return
        if isinstance(obj, Opaque):
            self.ctx.events.append(("setattr", obj.tag, name))
            return
        if isinstance(obj, types.ModuleType):
            self.ctx.global_overlay[(obj.__name__, name)] = value
            return
        if isinstance(obj, Closure) and name in ("__name__", "__qualname__", "__doc__"):
            # renaming a nested function (functools.wraps style) does not change what it computes
            if not hasattr(obj, "meta"):
                obj.meta = {}
            obj.meta[name] = value
            return
        if isinstance(obj, (SCls, SFmt, Closure, BoundMethod)) or sym.is_sym(obj):
            self.outside(f"setattr on {obj!r}", node)
        # real object: never mutated; overlay instead
        self.ctx.attr_overlay[(id(obj), name)] = (obj, value)

    def is_repo_function(self, fn):
        code = getattr(fn, "__code__", None)
        return code is not None and code.co_filename.startswith(loader.REPO)

    # ------------------------------------------------------------------
    # calls
    # ------------------------------------------------------------------
    def call(self, fn, args, kwargs, node=None):
        from . import pybuiltins

        if _hashable(fn) and id(fn) in OPAQUE_FUNCS:
            self.ctx.events.append(("opaque-call", OPAQUE_FUNCS[id(fn)]))
            return Opaque(OPAQUE_FUNCS[id(fn)] + "()", *args)
        if isinstance(fn, type) and fn in OPAQUE_CLASSES:
            return Opaque(fn.__name__ + "()", *args)
        if isinstance(fn, type) and fn in getattr(self, "class_call_models", {}):
            return self.class_call_models[fn](self, args, kwargs)  # e.g. IdMap() -> ghost map with arbitrary content
        if isinstance(fn, SCls) and self.kind_of_cls(fn) in getattr(self, "class_call_models", {}):
            # a parametrised class produced by a subscript model (Temporary[bool] -> SCls(Temporary, ...)): the case-level
            # model registered for the generic class applies
            return self.class_call_models[self.kind_of_cls(fn)](self, args, kwargs)
        if isinstance(fn, types.FunctionType) and fn.__qualname__.split(".")[0] in {c.__name__ for c in OPAQUE_CLASSES} and fn.__module__ in {c.__module__ for c in OPAQUE_CLASSES}:
            return Opaque(fn.__qualname__ + "()", *args)
        if isinstance(fn, BoundMethod):
            if isinstance(fn.fn, tuple):
                return pybuiltins.call_pseudo(self, fn, args, kwargs, node)
            return self.call(fn.fn, [fn.self_obj] + list(args), kwargs, node)
        if isinstance(fn, Closure):
            return self.call_closure(fn, args, kwargs, node)
        if isinstance(fn, SCls):
            return self.instantiate(fn, args, kwargs, node)
        if isinstance(fn, Opaque):
            self.ctx.events.append(("call", fn.tag, len(args)))
            if getattr(self, "havoc_unknown_calls", False) and self.ctx.branch(self.ctx.fresh_bool("callee_raises")):
                raise PyExc(Exception, (), where=f"in {fn.tag}")
            return Opaque(f"{fn.tag}()", fn, *args)
        if isinstance(fn, SObj):
            c = self.lookup_special(fn, "__call__")
            if c is _MISSING:
                self.raise_(TypeError, "not callable", node=node)
            return self.call(c, args, kwargs, node)
        if isinstance(fn, types.MethodType):
            return self.call(fn.__func__, [fn.__self__] + list(args), kwargs, node)
        if isinstance(fn, types.FunctionType):
            return self.call_function(fn, args, kwargs, node)
        if isinstance(fn, type):
            h = pybuiltins.TYPE_HANDLERS.get(fn)
            if h is not None:
                return h(self, args, kwargs, node)
            symbolic_args = any(contains_symbolic(a) for a in list(args) + list(kwargs.values()))
            if issubclass(fn, (dict, list, set)) and not symbolic_args:
                return self.native_call(fn, args, kwargs, node)  # e.g. IdMap(): a dict subclass
            if self.is_repo_class(fn) or symbolic_args:
                return self.instantiate(fn, args, kwargs, node)
            return self.native_call(fn, args, kwargs, node)
        h = pybuiltins.HANDLERS.get(fn) if _hashable(fn) else None
        if h is not None:
            return h(self, args, kwargs, node)
        if isinstance(fn, types.BuiltinMethodType) and isinstance(getattr(fn, "__self__", None), str) and fn.__name__ == "join" and len(args) == 1:
            from . import ops

            items = [ops.to_text(self, x, node) for x in self.iterate(args[0], node)]
            if all(isinstance(x, str) for x in items):
                return fn.__self__.join(items)
            parts = []
            for i, x in enumerate(items):
                if i:
                    parts.append(fn.__self__)
                parts.append(x)
            return SFmt(parts)
        if isinstance(fn, types.BuiltinMethodType) and isinstance(getattr(fn, "__self__", None), (list, dict)):
            # container spines are concrete: structural methods never inspect the (symbolic) elements
            owner = fn.__self__
            safe = {"append", "extend", "insert", "clear", "copy", "reverse", "items", "keys", "values"} if isinstance(owner, list) else {"items", "keys", "values", "clear", "copy"}
            keyed = isinstance(owner, dict) and fn.__name__ in ("setdefault", "get") and args and isinstance(args[0], (str, int, tuple)) and not contains_symbolic([args[0]])
            if fn.__name__ == "remove" and isinstance(owner, list) and len(args) == 1 and contains_symbolic(list(args)):
                # list.remove of a symbolic element: decided only when the very object is an element (identity); equality of two
                # different symbolic values is not decided here
                for i, x in enumerate(owner):
                    if x is args[0]:
                        del owner[i]
                        return None
                self.outside("list.remove of a symbolic value that is not (identically) an element", node)
            if fn.__name__ in safe or keyed or (fn.__name__ == "pop" and isinstance(owner, list) and not contains_symbolic(list(args))):
                try:
                    return fn(*args, **kwargs)
                except Exception as e:
                    raise PyExc(type(e), e.args, where=getattr(node, "lineno", None))
        if isinstance(fn, (types.BuiltinFunctionType, types.BuiltinMethodType, types.MethodWrapperType, types.MethodDescriptorType, types.WrapperDescriptorType)):
            return self.native_call(fn, args, kwargs, node)
        if callable(fn):
            c = getattr(type(fn), "__call__", None)
            if isinstance(c, types.FunctionType) and self.is_repo_function(c):
                # instance of a repository class with __call__ (e.g. std.Value): contract / model / inline of that method
                return self.call_function(c, [fn] + list(args), kwargs, node)
            if not contains_symbolic(list(args) + list(kwargs.values())):
                return self.native_call(fn, args, kwargs, node)
        self.outside(f"call of {fn!r}", node)

    def is_repo_class(self, c):
        mod = getattr(c, "__module__", "")
        return mod.startswith("cohdl")

    def native_call(self, fn, args, kwargs, node=None):
        if contains_symbolic(list(args)) or contains_symbolic(list(kwargs.values())):
            self.outside(f"native call {getattr(fn, '__name__', fn)} with symbolic arguments", node)
        if getattr(fn, "__name__", "") in ("fromkeys", "list", "tuple", "join", "enumerate", "zip", "iter", "next", "extend", "map", "filter", "dict"):
            for a in list(args) + list(kwargs.values()):
                if isinstance(a, (set, frozenset)) and len(a) > 1 and any(isinstance(x, str) for x in a):
                    # a builtin that consumes the set in iteration order (dict.fromkeys, list, tuple, update, join ...):
                    # the order of a set of str depends on PYTHONHASHSEED
                    self.ctx.events.append(("iter-set-of-str", tuple(sorted(map(str, a)))))
        try:
            return fn(*args, **kwargs)
        except (OutsideSubset, PyExc, Infeasible, PathEnd):
            raise
        except Exception as e:
            raise PyExc(type(e), e.args, where=getattr(node, "lineno", None))

    def call_function(self, fn, args, kwargs, node=None):
        self.calls_seen.append(getattr(fn, "__qualname__", str(fn)))
        m = getattr(self, "local_models", {}).get(id(fn)) or MODELS.get(id(fn))  # case-level models first
        if m is not None and id(fn) not in self.target_ids:
            return m(self, *args, **kwargs)
        if id(fn) in self.target_ids and self.depth >= 1 and getattr(self, "havoc_unknown_calls", False):
            # recursive call of the function under an exception-safety obligation: any outcome
            if self.ctx.branch(self.ctx.fresh_bool("callee_raises")):
                raise PyExc(Exception, (), where=f"in recursive {fn.__qualname__}")
            return Opaque(f"{fn.__qualname__}()")
        if id(fn) in self.target_ids or id(fn) in INLINE:
            return self.interpret_function(fn, args, kwargs, node)
        if not self.is_repo_function(fn):
            # stdlib python function (typing.cast, enum ...)
            if fn.__module__ == "typing" and fn.__name__ == "cast":
                return args[1]
            return self.native_call(fn, args, kwargs, node)
        if getattr(self, "havoc_unknown_calls", False):
            # exception-safety mode: an uncontracted callee returns something or raises
            self.ctx.events.append(("havoc-call", fn.__qualname__))
            if self.ctx.branch(self.ctx.fresh_bool("callee_raises")):
                raise PyExc(Exception, (), where=f"in {fn.__qualname__}")
            return Opaque(f"{fn.__qualname__}()")
        self.outside(
            f"call to {fn.__module__}:{fn.__qualname__} which has neither a contract nor an inline mark",
            node,
        )

    def interpret_function(self, fn, args, kwargs, node=None):
        src = loader.from_code(fn.__code__)
        if src is None:
            self.outside(f"no source for {fn.__qualname__}", node)
        # pseudo frame for real closure cells
        enclosing = None
        if fn.__closure__:
            cells = {}
            for name, cell in zip(fn.__code__.co_freevars, fn.__closure__):
                try:
                    cells[name] = cell.cell_contents
                except ValueError:
                    pass
            enclosing = Frame(cells, None, fn.__globals__, "<cells>")
        defaults = list(fn.__defaults__ or ())
        kwdefaults = dict(fn.__kwdefaults__ or {})
        owner = None
        if src.cls_name:
            try:
                owner = loader.resolve(f"{fn.__module__}:{src.cls_name}")
            except Exception:
                owner = None
        return self.run_body(
            src.node, args, kwargs, enclosing, fn.__globals__, fn.__qualname__, defaults, kwdefaults, node, owner
        )

    def call_closure(self, c: Closure, args, kwargs, node=None):
        m = CLOSURE_MODELS.get(c.qualname)
        active = getattr(self, "_active_closures", None)
        if active is None:
            active = self._active_closures = {}
        if m is not None and active.get(c.qualname, 0) >= 1:
            # recursive call of a nested function under contract: its own
            # contract is the induction hypothesis
            return m(self, c, *args, **kwargs)
        active[c.qualname] = active.get(c.qualname, 0) + 1
        try:
            hook = CLOSURE_ENTRY_HOOKS.get(c.qualname)
            if hook is not None and active[c.qualname] == 1:
                return hook(self, c, args, kwargs, node)
            return self._run_closure(c, args, kwargs, node)
        finally:
            active[c.qualname] -= 1

    def _run_closure(self, c: Closure, args, kwargs, node=None):
        return self.run_body(
            c.node, args, kwargs, c.frame, c.frame.globals, c.qualname, c.defaults, c.kwdefaults, node, c.frame.cls
        )

    def bind_params(self, fnode, args, kwargs, defaults, kwdefaults, node):
        a = fnode.args
        params = [p.arg for p in a.posonlyargs] + [p.arg for p in a.args]
        n_posonly = len(a.posonlyargs)
        loc = {}
        args = list(args)
        if len(args) > len(params) and a.vararg is None:
            self.raise_(TypeError, "too many positional arguments", node=node)
        for name, v in zip(params, args):
            loc[name] = v
        if a.vararg is not None:
            loc[a.vararg.arg] = tuple(args[len(params) :])
        extra = {}
        for k, v in kwargs.items():
            if k in params[n_posonly:] or k in [p.arg for p in a.kwonlyargs]:
                if k in loc:
                    self.raise_(TypeError, f"multiple values for {k}", node=node)
                loc[k] = v
            elif a.kwarg is not None:
                extra[k] = v
            else:
                self.raise_(TypeError, f"unexpected keyword {k}", node=node)
        if a.kwarg is not None:
            loc[a.kwarg.arg] = extra
        nd = len(defaults)
        for i, name in enumerate(params):
            if name not in loc:
                di = i - (len(params) - nd)
                if di >= 0:
                    loc[name] = defaults[di]
                else:
                    self.raise_(TypeError, f"missing argument {name}", node=node)
        for p in a.kwonlyargs:
            if p.arg not in loc:
                if p.arg in kwdefaults:
                    loc[p.arg] = kwdefaults[p.arg]
                else:
                    self.raise_(TypeError, f"missing keyword argument {p.arg}", node=node)
        return loc

    def run_body(self, fnode, args, kwargs, enclosing, globals_, qualname, defaults, kwdefaults, node, owner_cls):
        self.depth += 1
        if self.depth > 60:
            self.outside("call depth > 60", node)
        try:
            loc = self.bind_params(fnode, args, kwargs, defaults, kwdefaults, node)
            frame = Frame(loc, enclosing, globals_, qualname, cls=owner_cls)
            if isinstance(fnode, ast.Lambda):
                return self.eval(fnode.body, frame)
            for n in ast.walk(fnode):
                if isinstance(n, ast.Nonlocal):
                    if self._owner_def(fnode, n):
                        frame.nonlocals.update(n.names)
                elif isinstance(n, ast.Global):
                    if self._owner_def(fnode, n):
                        frame.globals_decl.update(n.names)
                elif isinstance(n, ast.Yield) and self._owner_def(fnode, n):
                    # generator: run eagerly, the call yields the list of produced
                    # values (assumption: the consumer exhausts it, no interleaving)
                    frame.yields = []
                elif isinstance(n, ast.YieldFrom) and self._owner_def(fnode, n):
                    self.outside("yield from body", n)
                elif isinstance(n, ast.Await) and self._owner_def(fnode, n) and getattr(self, "await_hook", None) is None:
                    self.outside("await body (no await_hook given by the case)", n)
            loops = sorted(
                (n for n in ast.walk(fnode) if isinstance(n, (ast.For, ast.While)) and self._owner_def(fnode, n)),
                key=lambda n: (n.lineno, n.col_offset),
            )
            frame.loop_index = {id(n): i + 1 for i, n in enumerate(loops)}
            params = fnode.args
            if params.args or params.posonlyargs:
                first = (params.posonlyargs + params.args)[0].arg
                frame.self_obj = loc.get(first)
            try:
                self.exec_block(fnode.body, frame)
            except _Return as r:
                if getattr(frame, "yields", None) is not None:
                    return frame.yields
                return r.value
            if getattr(frame, "yields", None) is not None:
                return frame.yields
            return None
        finally:
            self.depth -= 1

    @staticmethod
    def _owner_def(fnode, target):
        """is `target` directly inside fnode (not in a nested def)?"""
        stack = list(ast.iter_child_nodes(fnode))
        while stack:
            n = stack.pop()
            if n is target:
                return True
            if isinstance(n, (ast.FunctionDef, ast.AsyncFunctionDef, ast.Lambda)):
                continue
            stack.extend(ast.iter_child_nodes(n))
        return False

    def instantiate(self, cls, args, kwargs, node=None):
        kind = self.kind_of_cls(cls)
        for k, fn in list(getattr(self, "ctor_models", {}).items()) + list(CTOR_MODELS.items()):  # case-level models first
            if issubclass(kind, k):
                init_raw, _ = self.static_lookup(kind, "__init__")
                if id(init_raw) in self.target_ids:
                    break
                r = fn(self, cls, *args, **kwargs)
                if r is not _MISSING:
                    return r
        new_raw, new_owner = self.static_lookup(kind, "__new__")
        if new_raw is not _MISSING and new_owner is not object:
            self.outside(f"class {kind.__name__} defines __new__", node)
        import enum as _enum

        if issubclass(kind, _enum.Enum):
            return self.native_call(kind, args, kwargs, node)
        obj = SObj(cls)
        init_raw, owner = self.static_lookup(kind, "__init__")
        if init_raw is not _MISSING and owner is not object:
            self.call(BoundMethod(init_raw, obj), args, kwargs, node)
        elif args or kwargs:
            self.raise_(TypeError, "object() takes no arguments", node=node)
        return obj

    # ------------------------------------------------------------------
    # names
    # ------------------------------------------------------------------
    def load_name(self, name, frame, node=None):
        f = frame
        if name in frame.globals_decl:
            f = None
        while f is not None:
            if name in f.locals:
                return f.locals[name]
            f = f.enclosing
        g = frame.globals
        gk = (g.get("__name__"), name)
        if gk in self.ctx.global_overlay:
            return self.ctx.global_overlay[gk]
        if name in g:
            return g[name]
        if hasattr(builtins, name):
            return getattr(builtins, name)
        self.raise_(NameError, name, node=node)

    def store_name(self, name, value, frame):
        if name in frame.globals_decl:
            self.ctx.global_overlay[(frame.globals.get("__name__"), name)] = value
            return
        if name in frame.nonlocals:
            f = frame.enclosing
            while f is not None:
                if name in f.locals:
                    f.locals[name] = value
                    return
                f = f.enclosing
            raise OutsideSubset(f"nonlocal {name} not found")
        frame.locals[name] = value

    # ------------------------------------------------------------------
    # statements
    # ------------------------------------------------------------------
    def exec_block(self, stmts, frame):
        for s in stmts:
            self.exec(s, frame)

    def exec(self, s, frame):
        m = getattr(self, "s_" + type(s).__name__, None)
        if m is None:
            self.outside(f"statement {type(s).__name__}", s)
        return m(s, frame)

    def s_Expr(self, s, frame):
        if isinstance(s.value, ast.Constant):
            return
        self.eval(s.value, frame)

    def s_Pass(self, s, frame):
        pass

    def s_Return(self, s, frame):
        raise _Return(self.eval(s.value, frame) if s.value is not None else None)

    def s_Break(self, s, frame):
        raise _Break()

    def s_Continue(self, s, frame):
        raise _Continue()

    def s_Global(self, s, frame):
        pass

    def s_Nonlocal(self, s, frame):
        pass

    def s_Import(self, s, frame):
        for a in s.names:
            mod = importlib.import_module(a.name)
            if a.asname:
                self.store_name(a.asname, mod, frame)
            else:
                self.store_name(a.name.split(".")[0], importlib.import_module(a.name.split(".")[0]), frame)

    def s_ImportFrom(self, s, frame):
        pkg = frame.globals.get("__package__")
        modname = ("." * s.level) + (s.module or "")
        mod = importlib.import_module(modname, pkg) if s.level else importlib.import_module(modname)
        for a in s.names:
            try:
                v = getattr(mod, a.name)
            except AttributeError:
                v = importlib.import_module(f"{mod.__name__}.{a.name}")
            self.store_name(a.asname or a.name, v, frame)

    def s_Assert(self, s, frame):
        v = self.eval(s.test, frame)
        if not self.truth(v, s):
            self.raise_(AssertionError, node=s)

    def s_Raise(self, s, frame):
        if s.exc is None:
            cur = getattr(frame, "_current_exc", None)
            if cur is None:
                self.outside("bare raise outside handler", s)
            raise cur
        cls = self.exc_class(s.exc, frame)
        raise PyExc(cls, (), where=s.lineno)

    def exc_class(self, e, frame):
        """class of `raise X(...)` / `raise X` without evaluating the message"""
        if isinstance(e, ast.Call):
            v = self.eval(e.func, frame)
        else:
            v = self.eval(e, frame)
        if isinstance(v, type) and issubclass(v, BaseException):
            return v
        if isinstance(v, BaseException):
            return type(v)
        self.outside("raise of non-exception", e)

    def s_Assign(self, s, frame):
        v = self.eval(s.value, frame)
        for t in s.targets:
            self.assign(t, v, frame)

    def s_AnnAssign(self, s, frame):
        if s.value is not None:
            self.assign(s.target, self.eval(s.value, frame), frame)

    def s_AugAssign(self, s, frame):
        from . import ops

        if isinstance(s.target, ast.Name):
            cur = self.load_name(s.target.id, frame, s)
        elif isinstance(s.target, ast.Attribute):
            base = self.eval(s.target.value, frame)
            cur = self.get_attr(base, s.target.attr, s)
        elif isinstance(s.target, ast.Subscript):
            base = self.eval(s.target.value, frame)
            key = self.eval(s.target.slice, frame)
            cur = ops.getitem(self, base, key, s)
        else:
            self.outside("augassign target", s)
        r = ops.binop(self, type(s.op), cur, self.eval(s.value, frame), s, inplace=True)
        if isinstance(s.target, ast.Name):
            self.store_name(s.target.id, r, frame)
        elif isinstance(s.target, ast.Attribute):
            self.set_attr(base, s.target.attr, r, s)
        else:
            ops.setitem(self, base, key, r, s)

    def assign(self, t, v, frame):
        from . import ops

        if isinstance(t, ast.Name):
            self.store_name(t.id, v, frame)
        elif isinstance(t, ast.Attribute):
            self.set_attr(self.eval(t.value, frame), t.attr, v, t)
        elif isinstance(t, ast.Subscript):
            ops.setitem(self, self.eval(t.value, frame), self.eval(t.slice, frame), v, t)
        elif isinstance(t, (ast.Tuple, ast.List)):
            items = self.iterate(v, t)
            star = [i for i, e in enumerate(t.elts) if isinstance(e, ast.Starred)]
            if star:
                i = star[0]
                after = len(t.elts) - i - 1
                if len(items) < len(t.elts) - 1:
                    self.raise_(ValueError, "not enough values to unpack", node=t)
                for e, x in zip(t.elts[:i], items[:i]):
                    self.assign(e, x, frame)
                self.assign(t.elts[i].value, list(items[i : len(items) - after]), frame)
                for e, x in zip(t.elts[i + 1 :], items[len(items) - after :]):
                    self.assign(e, x, frame)
            else:
                if len(items) != len(t.elts):
                    self.raise_(ValueError, "unpack length mismatch", node=t)
                for e, x in zip(t.elts, items):
                    self.assign(e, x, frame)
        else:
            self.outside(f"assignment target {type(t).__name__}", t)

    def s_Delete(self, s, frame):
        from . import ops

        for t in s.targets:
            if isinstance(t, ast.Name):
                del frame.locals[t.id]
            elif isinstance(t, ast.Subscript):
                ops.delitem(self, self.eval(t.value, frame), self.eval(t.slice, frame), t)
            elif isinstance(t, ast.Attribute):
                # del obj.attr: an instance attribute of a ghost object or of a plain (non-repo-state) Python object
                obj = self.eval(t.value, frame)
                if isinstance(obj, SObj):
                    if t.attr not in obj.fields:
                        self.raise_(AttributeError, node=t)
                    del obj.fields[t.attr]
                elif (id(obj), t.attr) in self.ctx.attr_overlay:
                    del self.ctx.attr_overlay[(id(obj), t.attr)]  # an attribute this path set on a concrete object
                elif not isinstance(obj, (type, types.ModuleType)) and hasattr(obj, "__dict__") and t.attr in vars(obj):
                    delattr(obj, t.attr)
                else:
                    self.outside("del of an attribute that is not an instance attribute", s)
            else:
                self.outside("del target", s)

    def s_If(self, s, frame):
        if self.truth(self.eval(s.test, frame), s):
            self.exec_block(s.body, frame)
        else:
            self.exec_block(s.orelse, frame)

    def s_FunctionDef(self, s, frame):
        defaults = [self.eval(d, frame) for d in s.args.defaults]
        kwdefaults = {
            p.arg: self.eval(d, frame) for p, d in zip(s.args.kwonlyargs, s.args.kw_defaults) if d is not None
        }
        c = Closure(s, frame, f"{frame.func_name}.{s.name}", defaults, kwdefaults)
        v = c
        for d in reversed(s.decorator_list):
            dec = self.eval(d, frame)
            v = self.call(dec, [v], {}, s)
        self.store_name(s.name, v, frame)

    def s_With(self, s, frame):
        mgrs = []
        for item in s.items:
            m = self.eval(item.context_expr, frame)
            if not isinstance(m, SObj):
                self.outside("with on non-symbolic manager", s)
            ent = self.lookup_special(m, "__enter__")
            ext = self.lookup_special(m, "__exit__")
            if ent is _MISSING or ext is _MISSING:
                self.raise_(AttributeError, "__enter__", node=s)
            v = self.call(ent, [], {}, s)
            mgrs.append(ext)
            if item.optional_vars is not None:
                self.assign(item.optional_vars, v, frame)
        try:
            self.exec_block(s.body, frame)
        except PyExc as e:
            swallowed = False
            for ext in reversed(mgrs):
                r = self.call(ext, [e.cls, Opaque("exc"), None], {}, s)
                if r is not None and self.truth(r, s):
                    swallowed = True
                    break
            if not swallowed:
                raise
            return
        except (_Return, _Break, _Continue):
            for ext in reversed(mgrs):
                self.call(ext, [None, None, None], {}, s)
            raise
        for ext in reversed(mgrs):
            self.call(ext, [None, None, None], {}, s)

    def s_Try(self, s, frame):
        def run_final():
            if s.finalbody:
                self.exec_block(s.finalbody, frame)

        try:
            try:
                self.exec_block(s.body, frame)
            except PyExc as e:
                for h in s.handlers:
                    if h.type is None:
                        match = True
                    else:
                        ht = self.eval(h.type, frame)
                        hts = ht if isinstance(ht, tuple) else (ht,)
                        match = any(isinstance(x, type) and issubclass(e.cls, x) for x in hts)
                    if match:
                        if h.name:
                            frame.locals[h.name] = Opaque("exception")
                        prev = getattr(frame, "_current_exc", None)
                        frame._current_exc = e
                        try:
                            self.exec_block(h.body, frame)
                        finally:
                            frame._current_exc = prev
                        break
                else:
                    raise
            else:
                self.exec_block(s.orelse, frame)
        except (PyExc, _Return, _Break, _Continue):
            run_final()
            raise
        run_final()

    def loop_spec(self, s, frame):
        """sidecar invariant of this loop statement, keyed by the function's
        qualname and the loop's ordinal in source order (1-based)"""
        f = frame
        while f is not None and getattr(f, "loop_index", None) is None:
            f = f.enclosing
        if f is None:
            return None
        k = f.loop_index.get(id(s))
        return LOOP_INVARIANTS.get((f.func_name, k)) if k else None

    def s_While(self, s, frame):
        spec = self.loop_spec(s, frame)
        if spec is not None:
            return self.loop_with_invariant(s, frame, spec, kind="while")
        n = 0
        while True:
            if not self.truth(self.eval(s.test, frame), s):
                self.exec_block(s.orelse, frame)
                return
            n += 1
            if n > 64:
                self.outside("while loop without invariant exceeds 64 unrolled iterations", s)
            try:
                self.exec_block(s.body, frame)
            except _Break:
                return
            except _Continue:
                continue

    def s_For(self, s, frame):
        spec = self.loop_spec(s, frame)
        if spec is not None:
            it = self.eval(s.iter, frame) if getattr(spec, "eval_iterable", True) else None
            return self.loop_with_invariant(s, frame, spec, kind="for", iterable=it)
        it = self.eval(s.iter, frame)
        items = self.iterate(it, s)
        for x in items:
            self.assign(s.target, x, frame)
            try:
                self.exec_block(s.body, frame)
            except _Break:
                return
            except _Continue:
                continue
        self.exec_block(s.orelse, frame)

    def loop_with_invariant(self, s, frame, spec, kind, iterable=None):
        """cut the loop at its head with the sidecar invariant:
        inv.init on entry; then from an arbitrary state satisfying the
        invariant either one iteration (inv.step, path cut) or exit."""
        ctx = self.ctx
        st = spec.enter(self, frame, iterable)
        ctx.prove(spec.oid("inv.init"), spec.invariant(self, frame, st), loop=spec.key)
        spec.havoc(self, frame, st)
        ctx.assume(sym.to_z3(spec.invariant(self, frame, st)))
        if kind == "while":
            cond = self.truth(self.eval(s.test, frame), s)
        else:
            cond = self.truth(spec.has_next(self, frame, st), s)
        if cond:
            if kind == "for":
                self.assign(s.target, spec.next_item(self, frame, st), frame)
            measure0 = spec.measure(self, frame, st) if spec.has_measure else None
            broke = False
            try:
                self.exec_block(s.body, frame)
            except _Break:
                broke = True
            except _Continue:
                pass
            if broke:
                return  # code after the loop continues on this path
            spec.advance(self, frame, st)
            ctx.prove(spec.oid("inv.step"), spec.invariant(self, frame, st), loop=spec.key)
            if measure0 is not None:
                m1 = spec.measure(self, frame, st)
                ctx.prove(spec.oid("decreases"), sym.And(measure0 >= 0, m1 < measure0), loop=spec.key)
            raise PathEnd()
        else:
            self.exec_block(s.orelse, frame)

    # ------------------------------------------------------------------
    # iteration
    # ------------------------------------------------------------------
    def iterate(self, it, node=None):
        from . import ops

        return ops.iterate(self, it, node)

    # ------------------------------------------------------------------
    # expressions
    # ------------------------------------------------------------------
    def eval(self, e, frame):
        m = getattr(self, "e_" + type(e).__name__, None)
        if m is None:
            self.outside(f"expression {type(e).__name__}", e)
        return m(e, frame)

    def e_Constant(self, e, frame):
        return e.value

    def e_Name(self, e, frame):
        return self.load_name(e.id, frame, e)

    def e_Attribute(self, e, frame):
        return self.get_attr(self.eval(e.value, frame), e.attr, e)

    def e_Tuple(self, e, frame):
        return tuple(self.eval_elts(e.elts, frame))

    def e_List(self, e, frame):
        return list(self.eval_elts(e.elts, frame))

    def e_Set(self, e, frame):
        items = self.eval_elts(e.elts, frame)
        if contains_symbolic(items):
            self.outside("set display with symbolic members", e)
        return set(items)

    def eval_elts(self, elts, frame):
        out = []
        for x in elts:
            if isinstance(x, ast.Starred):
                v = self.eval(x.value, frame)
                if isinstance(v, Opaque):
                    out.append(Opaque("*" + v.tag, v))  # unknown number of opaque elements
                else:
                    out.extend(self.iterate(v, x))
            else:
                out.append(self.eval(x, frame))
        return out

    def e_Dict(self, e, frame):
        d = {}
        for k, v in zip(e.keys, e.values):
            if k is None:
                other = self.eval(v, frame)
                if not isinstance(other, dict):
                    self.outside("** of non-dict", e)
                d.update(other)
            else:
                kk = self.eval(k, frame)
                if contains_symbolic(kk):
                    self.outside("dict display with symbolic key", e)
                d[kk] = self.eval(v, frame)
        return d

    def e_Slice(self, e, frame):
        return slice(
            self.eval(e.lower, frame) if e.lower else None,
            self.eval(e.upper, frame) if e.upper else None,
            self.eval(e.step, frame) if e.step else None,
        )

    def e_Subscript(self, e, frame):
        from . import ops

        return ops.getitem(self, self.eval(e.value, frame), self.eval(e.slice, frame), e)

    def e_Lambda(self, e, frame):
        defaults = [self.eval(d, frame) for d in e.args.defaults]
        kwdefaults = {
            p.arg: self.eval(d, frame) for p, d in zip(e.args.kwonlyargs, e.args.kw_defaults) if d is not None
        }
        return Closure(e, frame, f"{frame.func_name}.<lambda>", defaults, kwdefaults)

    def e_IfExp(self, e, frame):
        if self.truth(self.eval(e.test, frame), e):
            return self.eval(e.body, frame)
        return self.eval(e.orelse, frame)

    def e_BoolOp(self, e, frame):
        is_and = isinstance(e.op, ast.And)
        v = None
        for x in e.values:
            v = self.eval(x, frame)
            t = self.truth(v, e)
            if is_and and not t:
                return v
            if not is_and and t:
                return v
        return v

    def e_UnaryOp(self, e, frame):
        from . import ops

        return ops.unaryop(self, type(e.op), self.eval(e.operand, frame), e)

    def e_BinOp(self, e, frame):
        from . import ops

        return ops.binop(self, type(e.op), self.eval(e.left, frame), self.eval(e.right, frame), e)

    def e_Compare(self, e, frame):
        from . import ops

        left = self.eval(e.left, frame)
        result = True
        for i, (op, rn) in enumerate(zip(e.ops, e.comparators)):
            right = self.eval(rn, frame)
            r = ops.compare(self, type(op), left, right, e)
            if i == len(e.ops) - 1:
                return r if result is True else r
            if not self.truth(r, e):
                return r
            left = right
        return result

    def e_Call(self, e, frame):
        # super() without arguments
        if isinstance(e.func, ast.Name) and e.func.id == "super" and not e.args:
            f = frame
            while f is not None and f.cls is None:
                f = f.enclosing
            if f is None or f.self_obj is None:
                self.outside("super() outside method", e)
            return SuperProxy(f.cls, f.self_obj)
        fn = self.eval(e.func, frame)
        args = []
        for a in e.args:
            if isinstance(a, ast.Starred):
                args.extend(self.iterate(self.eval(a.value, frame), a))
            else:
                args.append(self.eval(a, frame))
        kwargs = {}
        for k in e.keywords:
            if k.arg is None:
                d = self.eval(k.value, frame)
                if not isinstance(d, dict):
                    self.outside("** of non-dict", e)
                kwargs.update(d)
            else:
                kwargs[k.arg] = self.eval(k.value, frame)
        return self.call(fn, args, kwargs, e)

    def e_JoinedStr(self, e, frame):
        from . import ops

        parts = []
        for v in e.values:
            if isinstance(v, ast.Constant):
                parts.append(v.value)
            else:
                if v.format_spec is not None:
                    self.outside("format spec", e)
                x = self.eval(v.value, frame)
                if v.conversion == 114:
                    parts.append(ops.to_text(self, x, e, how="repr"))
                else:
                    parts.append(ops.to_text(self, x, e))
        if all(isinstance(p, str) for p in parts):
            return "".join(parts)
        return SFmt(parts)

    def e_ListComp(self, e, frame):
        return self._comp(e, frame, lambda f: self.eval(e.elt, f))

    def e_GeneratorExp(self, e, frame):
        return self._comp(e, frame, lambda f: self.eval(e.elt, f))

    def e_SetComp(self, e, frame):
        items = self._comp(e, frame, lambda f: self.eval(e.elt, f))
        if contains_symbolic(items):
            self.outside("set comprehension with symbolic members", e)
        return set(items)

    def e_DictComp(self, e, frame):
        pairs = self._comp(e, frame, lambda f: (self.eval(e.key, f), self.eval(e.value, f)))
        if any(contains_symbolic(k) for k, _ in pairs):
            self.outside("dict comprehension with symbolic key", e)
        return dict(pairs)

    def _comp(self, e, frame, elt):
        out = []
        sub = Frame({}, frame, frame.globals, frame.func_name, cls=frame.cls)
        sub.self_obj = frame.self_obj

        def rec(i):
            if i == len(e.generators):
                out.append(elt(sub))
                return
            g = e.generators[i]
            for x in self.iterate(self.eval(g.iter, sub if i else frame), e):
                self.assign(g.target, x, sub)
                if all(self.truth(self.eval(c, sub), e) for c in g.ifs):
                    rec(i + 1)

        rec(0)
        return out

    def e_Yield(self, e, frame):
        f = frame
        while f is not None and getattr(f, "yields", None) is None:
            f = f.enclosing
        if f is None:
            self.outside("yield outside generator frame", e)
        f.yields.append(self.eval(e.value, frame) if e.value is not None else None)
        return None

    def e_Await(self, e, frame):
        """coroutines are run eagerly (a call of an `async def` yields its return value), so awaiting such a
        call is the identity; awaiting anything else is a clock boundary whose meaning the case provides
        (await_hook: e.g. 'continue in a clock in which the awaited condition holds')."""
        v = self.eval(e.value, frame)
        hook = getattr(self, "await_hook", None)
        if hook is None:
            self.outside("await without an await_hook", e)
        return hook(self, v, e)

    def e_Starred(self, e, frame):
        self.outside("starred expression", e)

    def e_NamedExpr(self, e, frame):
        v = self.eval(e.value, frame)
        self.assign(e.target, v, frame)
        return v


def _hashable(x):
    try:
        hash(x)
        return True
    except TypeError:
        return False
