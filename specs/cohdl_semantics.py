"""CoHDL's documented operator semantics, transcribed from the statements of
C02 / C09 (properties.jsonl) -- NOT from the code:

  + , -     : result width = max(operand widths); wraps modulo the result width;
              unsigned operands zero-extended, signed operands sign-extended
  *         : result width = sum of widths (vector * literal: 2 * vector width,
              numeric_std converts the literal to the vector operand's width)
  truncdiv  : dividend width, quotient truncated toward zero
  mod       : divisor width, sign of the divisor (floor modulo)
  rem       : divisor width, sign of the dividend
  (vector op literal: width of the vector operand)
  << , >>   : operand width; >> logical for Unsigned, arithmetic for Signed
  abs, neg  : operand width, wrapping
  compare   : bool, on the represented numbers
  literals  : must be representable in the vector operand (else outside the
              domain: numeric_std would truncate the literal with a warning)

Every function takes a SpecCtx `sx` and operand views and returns the expected
result view; `sx.domain(c)` marks inputs outside the documented domain (any
outcome allowed), `sx.require(c)` a documented compile-time rejection.
All functions work on z3 terms and on Python ints alike.
"""

from __future__ import annotations

from cohdl import Unsigned, Signed, BitVector, Integer

from pyvc import sym
from contracts.core_models import U, S, BV, INT, width, uval, sval, ival, is_kind, vec

P2 = sym.pow2


def kind_of(x):
    if is_kind(x, Unsigned):
        return Unsigned
    if is_kind(x, Signed):
        return Signed
    return None


def mk(kind, w, v):
    """value v wrapped into kind[w]"""
    if kind is Unsigned:
        return U(w, sym.wrap_unsigned(v, w))
    # two's complement: the stored bits of a Signed[w] holding (v wrapped) are v mod 2**w
    return vec(Signed, w, sym.wrap_unsigned(v, w))


def representable(kind, w, k):
    if kind is Unsigned:
        return sym.And(k >= 0, k < P2(w))
    half = P2(sym.to_int(w) - 1)
    return sym.And(k >= -half, k < half)


def fits(kind, w, v):
    return representable(kind, w, v)


def literal(x):
    """int / Integer -> int term, else None"""
    if sym.is_intlike(x):
        return sym.to_int(x)
    if is_kind(x, Integer):
        return x.fields["_val"]
    return None


# -- binary arithmetic on (vector, vector) and (vector, literal) ----------
def add(sx, a, b, sub=False):
    """a + b / a - b with a a vector; b a vector of the same kind or a literal"""
    k = kind_of(a)
    wa = width(a)
    lb = literal(b)
    if lb is not None:
        if k is not Unsigned:
            sx.domain(representable(k, wa, lb))
        # Unsigned +/- ANY integer is defined: the arithmetic wraps modulo 2**width (Unsigned[4](3) + (-1) == 2,
        # Unsigned[4](7) + 300 == 3; tests/not_evaluated uses negative integers), so the generated logic has to produce
        # that value for negative and for oversized integers too
        w = wa
        vb = lb
    else:
        if kind_of(b) is not k:
            return NotImplemented
        w = sym.maxv(wa, width(b))
        vb = ival(b)
    va = ival(a)
    return mk(k, w, va - vb if sub else va + vb)


def radd(sx, a, lit_, sub=False):
    """lit + a / lit - a"""
    k = kind_of(a)
    wa = width(a)
    sx.domain(representable(k, wa, lit_))
    return mk(k, wa, lit_ - ival(a) if sub else lit_ + ival(a))


def mul(sx, a, b):
    k = kind_of(a)
    wa = width(a)
    lb = literal(b)
    if lb is not None:
        # (a negative integer with an Unsigned operand is "not representable" too: the fold multiplies by the integer
        # modulo 2**width, and the emitted text must not hand numeric_std a negative NATURAL)
        if not sx.branch(representable(k, wa, lb)):
            # numeric_std converts the integer to the width of the VECTOR operand (to_unsigned / to_signed(lit, L'length)):
            # the emitted `(a) * (17)` multiplies by the truncated literal.  A fold may refuse such a literal, but if it
            # yields a value it must be that one.
            sx.may_reject_here(AssertionError)
            lb = sym.wrap_unsigned(lb, wa) if k is Unsigned else sym.wrap_signed(lb, wa)
        return mk(k, 2 * wa, ival(a) * lb)
    if kind_of(b) is not k:
        return NotImplemented
    return mk(k, wa + width(b), ival(a) * ival(b))


def _div_like(sx, k, w, va, vb, op):
    sx.domain(sym.Not(sym.eq(vb, 0)))  # division by zero: an error in VHDL
    if op == "truncdiv":
        r = sym.truncdiv(va, vb)
    elif op == "mod":
        r = sym.pymod(va, vb)
    else:
        r = sym.truncrem(va, vb)
    if op == "truncdiv":
        # the one quotient that does not fit (minimum / -1) wraps in hardware (numeric_std "/" returns the operand
        # width): the fold may refuse it (compile-time error), but if it yields a value it is the wrapped one
        if not sx.branch(fits(k, w, r)):
            sx.may_reject_here(AssertionError)
        return mk(k, w, r)
    # mod / rem results that do not fit the documented width: the fold may reject them -- outside the value contract
    sx.domain(fits(k, w, r))
    return mk(k, w, r)


def divop(sx, a, b, op):
    """a op b, a vector; width: truncdiv -> dividend, mod/rem -> divisor"""
    k = kind_of(a)
    wa = width(a)
    lb = literal(b)
    if lb is not None:
        sx.domain(representable(k, wa, lb))
        return _div_like(sx, k, wa, ival(a), lb, op)
    if kind_of(b) is not k:
        return NotImplemented
    w = wa if op == "truncdiv" else width(b)
    return _div_like(sx, k, w, ival(a), ival(b), op)


def rdivop(sx, a, lit_, op):
    """lit op a: literal converted to the vector operand's width"""
    k = kind_of(a)
    wa = width(a)
    if k is Unsigned:
        # numeric_std "/", "mod", "rem" (L: NATURAL; R: UNSIGNED) compute with the UNTRUNCATED natural (operands extended to
        # max(bits of L, R'length)) and resize the result to R'length: 20 mod unsigned'("0110") = 2, not (20 mod 16) mod 6
        sx.domain(lit_ >= 0)
    else:
        sx.domain(representable(k, wa, lit_))
    return _div_like(sx, k, wa, lit_, ival(a), op)


def shift(sx, a, n, left):
    k = kind_of(a)
    w = width(a)
    sx.domain(n >= 0)
    if left:
        return mk(k, w, sym.shl(ival(a), n))
    return mk(k, w, sym.shr(ival(a), n))  # floor: logical for >=0 values, arithmetic for signed


def neg(sx, a):
    return mk(kind_of(a), width(a), -ival(a))


def absolute(sx, a):
    return mk(Signed, width(a), sym.absval(ival(a)))


def cmp(sx, a, b, op):
    va = ival(a)
    lb = literal(b)
    if lb is None:
        if kind_of(b) is not kind_of(a):
            return NotImplemented
        lb = ival(b)
    va, lb = sym.to_z3(va) if sym.is_sym(va) or sym.is_sym(lb) else va, lb
    return {
        "eq": lambda: sym.eq(va, lb),
        "ne": lambda: sym.Not(sym.eq(va, lb)),
        "lt": lambda: va < lb,
        "gt": lambda: va > lb,
        "le": lambda: va <= lb,
        "ge": lambda: va >= lb,
    }[op]()


def resize(sx, a, target_width, zeros):
    k = kind_of(a)
    w = width(a)
    tw = w + zeros if target_width is None else target_width
    sx.require(w + zeros <= tw)
    sx.domain(zeros >= 0)
    if getattr(getattr(sx, "ctx", None), "arith_hints", False):
        # proof hints only (instances of proved lemmas / true facts about 2**n, no change of meaning):
        # the scaled value stays within 2**(w-1+zeros) resp. 2**(w+zeros)
        if k is Signed:
            sx.lemma("scale-bound", ival(a), -P2(sym.to_int(w) - 1), P2(sym.to_int(w) - 1) - 1, P2(zeros))
            sx.pow2_facts(sym.to_int(w) - 1 + zeros, sym.to_int(tw) - 1, tw, products=[(sym.to_int(w) - 1, zeros)])
        else:
            sx.lemma("scale-bound", ival(a), 0, P2(w) - 1, P2(zeros))
            sx.pow2_facts(sym.to_int(w) + zeros, tw, products=[(w, zeros)])
    return mk(k, tw, ival(a) * P2(zeros))
