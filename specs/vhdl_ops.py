"""TRUSTED transcription of the numeric_std / std_logic_1164 meaning of the
operator expressions the backend emits (extends specs/vhdl_expr.py, which covers
the cast expressions).  From IEEE 1076.3 (numeric_std) and IEEE 1164:

  "+" "-"  (unsigned,unsigned) (signed,signed): length max(L,R), modulo 2**length,
           operands resized first (zero / sign extension);
           (vector, natural|integer) and reversed: length of the vector, the integer
           converted with to_unsigned / to_signed(., length)   [not representable: truncated
           with a warning -- legal VHDL, evaluated with the truncated integer]
  "*"      length L'length + R'length; (vector, integer): the integer converted to the
           vector's length first -> 2 * length
  "/"      length L'length, truncation toward zero; (vector, integer): integer converted to L'length
           (integer, vector): length R'length
  "rem"    sign of the dividend, "mod" sign of the divisor; length R'length,
           (vector, integer): L'length; division by zero is an error (TypeError_)
  "and" "or" "xor" "not": element-wise on arrays of EQUAL length and equal type / on std_logic / boolean
  "&"      concatenation, the left operand forms the most significant elements
  abs, unary "-" (signed): same length, two's complement wrap
  shift_left / shift_right (vector, natural): same length; right shift of signed replicates the sign
  "=" "/=" "<" "<=" ">" ">=" on (unsigned|signed, same | integer): numeric comparison (any lengths);
           "=" "/=" on std_logic_vector / std_logic / boolean: equal lengths element-wise
Everything works on Python ints and on z3 terms (widths and values symbolic).
The text is the structured text produced by the symbolically executed writer or
a plain string; operands are named placeholders.
"""

from __future__ import annotations

import re

import z3

from pyvc import sym
from pyvc.values import SFmt, SObj, TextOf, Opaque
from specs.vhdl_expr import VVal, TypeError_, ARRAY

P2 = sym.pow2

_TOK = re.compile(
    r"\s*(?:(?P<id>[A-Za-z_][A-Za-z_0-9]*'?)|(?P<num>\d+)|(?P<str>\"[^\"]*\")|(?P<chr>'[01]')|(?P<op>/=|<=|>=|=|<|>|\(|\)|,|\+|-|\*|/|&))"
)
KEYWORD_OPS = {"and", "or", "xor", "mod", "rem"}
UNARY_KW = {"not", "abs"}


class Tok:
    def __init__(self, kind, value):
        self.kind, self.value = kind, value

    def __repr__(self):
        return f"{self.kind}:{self.value}"


def tokens_of(text, operands):
    parts = text.parts if isinstance(text, SFmt) else [text]
    toks = []
    for p in parts:
        if isinstance(p, str):
            pos = 0
            while pos < len(p):
                m = _TOK.match(p, pos)
                if not m:
                    if p[pos:].strip() == "":
                        break
                    raise TypeError_(f"cannot tokenise {p[pos:]!r}")
                pos = m.end()
                if m.group("id"):
                    name = m.group("id")
                    if name in operands:
                        toks.append(Tok("operand", name))
                    elif name.lower() in KEYWORD_OPS:
                        toks.append(Tok("op", name.lower()))
                    elif name.lower() in UNARY_KW:
                        toks.append(Tok("unary", name.lower()))
                    elif name.lower() in ("true", "false"):
                        toks.append(Tok("bool", name.lower() == "true"))
                    else:
                        toks.append(Tok("id", name))
                elif m.group("num"):
                    toks.append(Tok("int", int(m.group("num"))))
                elif m.group("str"):
                    toks.append(Tok("strlit", m.group("str")[1:-1]))
                elif m.group("chr"):
                    toks.append(Tok("chrlit", m.group("chr")[1]))
                else:
                    toks.append(Tok("op", m.group("op")))
        elif isinstance(p, TextOf):
            v = p.value
            if sym.is_intlike(v):
                toks.append(Tok("int", v))
            else:
                raise TypeError_(f"unexpected embedded value {v!r}")
        else:
            raise TypeError_(f"unexpected text piece {p!r}")
    return toks


# ---- value helpers -------------------------------------------------------------------------------------------
def _vec(kind, w, value):
    """numeric value wrapped into kind[w] (bits = unsigned reading)"""
    return VVal(kind, w, sym.wrap_unsigned(value, w))


def _is_num(v):
    return v.kind in ("unsigned", "signed")


def _conv_int(sx, kind, w, k):
    """to_unsigned / to_signed(k, w): must be representable (else numeric_std truncates with a warning)"""
    if kind == "unsigned":
        ok = sym.And(k >= 0, k < P2(w))
    else:
        half = P2(sym.to_int(w) - 1)
        ok = sym.And(k >= -half, k < half)
    if not sx.branch(ok):
        # numeric_std: TO_UNSIGNED / TO_SIGNED truncate (assertion of severity WARNING "vector truncated"); the
        # expression is legal VHDL and has the value computed with the truncated integer
        return sym.wrap_unsigned(k, w) if kind == "unsigned" else sym.wrap_signed(k, w)
    return k


def _bitwise(op, a, b):
    return bitwise(op, a, b)


def bitwise(op, a, b):
    """element-wise and/or/xor of two equally long bit patterns given as unsigned integers"""
    a, b = sym.to_int(a), sym.to_int(b)
    if isinstance(a, int) and isinstance(b, int):
        return {"and": a & b, "or": a | b, "xor": a ^ b}[op]
    x, y = sym.to_z3(a), sym.to_z3(b)
    # commutative: canonical operand order so that a harmless swap is not a difference
    if str(x) > str(y):
        x, y = y, x
    return {"and": sym.BAND, "or": sym.BOR, "xor": sym.BXOR}[op](x, y)


def binop(sx, op, a, b):
    if op in ("+", "-", "*", "/", "mod", "rem"):
        if _is_num(a) and _is_num(b):
            if a.kind != b.kind:
                raise TypeError_(f"{a.kind} {op} {b.kind}")
            k, va, vb, wa, wb = a.kind, a.number(), b.number(), a.width, b.width
            lit = None
        elif _is_num(a) and b.kind == "integer":
            k, wa = a.kind, a.width
            if k == "unsigned" and not sx.branch(b.val >= 0):
                raise TypeError_("natural operand is negative")
            va, vb, wb, lit = a.number(), _conv_int(sx, k, wa, b.val), wa, "right"
        elif a.kind == "integer" and _is_num(b):
            k, wb = b.kind, b.width
            if k == "unsigned" and not sx.branch(a.val >= 0):
                raise TypeError_("natural operand is negative")
            va, vb, wa, lit = _conv_int(sx, k, wb, a.val), b.number(), wb, "left"
        else:
            raise TypeError_(f"{a.kind} {op} {b.kind}")
        if op in ("+", "-"):
            w = sym.maxv(wa, wb)
            return _vec(k, w, va + vb if op == "+" else va - vb)
        if op == "*":
            return _vec(k, sym.to_int(wa) + sym.to_int(wb), va * vb)
        if not sx.branch(sym.Not(sym.eq(vb, 0))):
            raise TypeError_("division by zero")
        if op == "/":
            return _vec(k, wa, sym.truncdiv(va, vb))
        w = wa if lit == "right" else wb
        return _vec(k, w, sym.truncrem(va, vb) if op == "rem" else sym.pymod(va, vb))
    if op in ("and", "or", "xor"):
        if a.kind == "boolean" and b.kind == "boolean":
            f = {"and": sym.And, "or": sym.Or, "xor": lambda p, q: sym.Not(sym.eq(p, q))}[op]
            return VVal("boolean", val=f(a.val, b.val))
        if a.kind == "std_logic" and b.kind == "std_logic":
            return VVal("std_logic", 1, _bitwise(op, a.bits, b.bits))
        if a.kind in ARRAY and a.kind == b.kind:
            if not sx.branch(sym.eq(a.width, b.width)):
                raise TypeError_("element-wise operator on arrays of different length")
            return VVal(a.kind, a.width, _bitwise(op, a.bits, b.bits))
        raise TypeError_(f"{a.kind} {op} {b.kind}")
    if op == "&":
        def as_slv(v):
            if v.kind == "std_logic":
                return 1, v.bits
            if v.kind == "slv":
                return v.width, v.bits
            raise TypeError_(f"concatenation operand {v.kind} (the backend must cast to std_logic_vector)")

        (wa, ba), (wb, bb) = as_slv(a), as_slv(b)
        return VVal("slv", sym.to_int(wa) + sym.to_int(wb), ba * P2(wb) + bb)
    if op in ("=", "/=", "<", "<=", ">", ">="):
        if _is_num(a) and (b.kind == a.kind or b.kind == "integer"):
            # numeric_std: "<"(L: UNSIGNED; R: NATURAL) etc. -- a negative integer violates the subtype of the parameter
            if a.kind == "unsigned" and b.kind == "integer" and not sx.branch(b.val >= 0):
                raise TypeError_("natural operand is negative")
            x, y = a.number(), (b.number() if _is_num(b) else b.val)
        elif a.kind == "integer" and _is_num(b):
            if b.kind == "unsigned" and not sx.branch(a.val >= 0):
                raise TypeError_("natural operand is negative")
            x, y = a.val, b.number()
        elif a.kind == "integer" and b.kind == "integer":
            x, y = a.val, b.val
        elif op in ("=", "/=") and a.kind == b.kind and a.kind in ("slv", "std_logic"):
            if a.kind == "slv" and not sx.branch(sym.eq(a.width, b.width)):
                raise TypeError_("comparison of std_logic_vectors of different length")
            x, y = a.bits, b.bits
        elif op in ("=", "/=") and a.kind == "boolean" and b.kind == "boolean":
            r = sym.eq(a.val, b.val) if not isinstance(a.val, bool) or not isinstance(b.val, bool) else a.val == b.val
            return VVal("boolean", val=r if op == "=" else sym.Not(r))
        else:
            raise TypeError_(f"{a.kind} {op} {b.kind}")
        x, y = sym.to_z3(sym.to_int(x)) if sym.is_sym(x) or sym.is_sym(y) else x, y
        r = {"=": lambda: sym.eq(x, y), "/=": lambda: sym.Not(sym.eq(x, y)), "<": lambda: x < y, "<=": lambda: x <= y, ">": lambda: x > y, ">=": lambda: x >= y}[op]()
        return VVal("boolean", val=r)
    raise TypeError_(f"operator {op}")


def unary(sx, op, a):
    if op == "not":
        if a.kind == "boolean":
            return VVal("boolean", val=sym.Not(a.val))
        if a.kind == "std_logic":
            return VVal("std_logic", 1, 1 - a.bits)
        if a.kind in ARRAY:
            return VVal(a.kind, a.width, P2(a.width) - 1 - a.bits)
        raise TypeError_(f"not {a.kind}")
    if op == "-":
        if a.kind == "signed":
            return _vec("signed", a.width, -a.number())
        if a.kind == "integer":
            return VVal("integer", val=-a.val)
        raise TypeError_(f"- {a.kind}")
    if op == "abs":
        if a.kind == "signed":
            return _vec("signed", a.width, sym.absval(a.number()))
        if a.kind == "integer":
            return VVal("integer", val=sym.absval(a.val))
        raise TypeError_(f"abs {a.kind}")
    raise TypeError_(op)


def call(sx, name, args):
    lname = name.lower()
    if lname in ("shift_left", "shift_right"):
        if len(args) != 2 or not _is_num(args[0]) or args[1].kind != "integer":
            raise TypeError_(f"{name}({', '.join(a.kind for a in args)})")
        a, n = args
        if not sx.branch(n.val >= 0):
            raise TypeError_("shift count is not a natural")
        if lname == "shift_left":
            return _vec(a.kind, a.width, sym.shl(a.number(), n.val))
        return _vec(a.kind, a.width, sym.shr(a.number(), n.val))  # floor: logical for unsigned, arithmetic for signed
    if lname in ("rising_edge", "falling_edge"):
        raise TypeError_("event expressions are not values")
    # casts and conversions: the transcription of specs/vhdl_expr.py
    from specs import vhdl_expr as VX

    p = VX.Parser([], None, None, sx)
    n = None
    if len(args) == 2:
        if args[1].kind != "integer":
            raise TypeError_(f"{name}(_, {args[1].kind})")
        n = args[1].val
    elif len(args) != 1:
        raise TypeError_(f"{name} with {len(args)} arguments")
    return p.apply(name, args[0], n)


class Parser:
    """expr := unary { binary-operator unary }   (VHDL forbids mixing different logical operators and
    relations without parentheses; a sequence of the same associative operator is evaluated left to right)"""

    def __init__(self, toks, operands, sx):
        self.toks, self.i, self.operands, self.sx = toks, 0, operands, sx

    def peek(self):
        return self.toks[self.i] if self.i < len(self.toks) else Tok("eof", None)

    def next(self):
        t = self.peek()
        self.i += 1
        return t

    def expect(self, kind, value=None):
        t = self.next()
        if t.kind != kind or (value is not None and t.value != value):
            raise TypeError_(f"expected {kind} {value}, got {t}")
        return t

    def expr(self):
        left = self.unary()
        first = None
        while self.peek().kind == "op" and self.peek().value not in (")", ",", "("):
            op = self.next().value
            if first is None:
                first = op
            elif op != first or op not in ("and", "or", "xor", "+", "-", "&", "*"):
                raise TypeError_(f"operators {first} and {op} mixed without parentheses")
            right = self.unary()
            left = binop(self.sx, op, left, right)
        return left

    def unary(self):
        t = self.peek()
        if t.kind == "unary":
            self.next()
            return unary(self.sx, t.value, self.unary())
        if t.kind == "op" and t.value == "-":
            self.next()
            return unary(self.sx, "-", self.unary())
        return self.primary()

    def index_suffix(self, v):
        """name(i)  /  name(hi downto lo)  on an array value (declared `downto 0`, the only order CoHDL declares)"""
        while self.peek().kind == "op" and self.peek().value == "(":
            if v.kind not in ARRAY:
                raise TypeError_(f"indexing a {v.kind}")
            self.next()
            hi = self.expr()
            if hi.kind != "integer":
                raise TypeError_("index is not an integer")
            t = self.peek()
            if t.kind == "id" and t.value.lower() in ("downto", "to"):
                self.next()
                if t.value.lower() == "to":
                    raise TypeError_("ascending slice of a descending vector (null or illegal range)")
                lo = self.expr()
                self.expect("op", ")")
                if lo.kind != "integer":
                    raise TypeError_("slice bound is not an integer")
                ok = sym.And(lo.val >= 0, hi.val >= lo.val, hi.val < v.width)
                if not self.sx.branch(ok):
                    raise TypeError_("slice bounds outside the vector")
                w = sym.to_int(hi.val) - sym.to_int(lo.val) + 1
                v = VVal(v.kind, w, sym.pymod(sym.pydiv(v.bits, P2(lo.val)), P2(w)))
            else:
                self.expect("op", ")")
                if not self.sx.branch(sym.And(hi.val >= 0, hi.val < v.width)):
                    raise TypeError_("index outside the vector")
                v = VVal("std_logic", 1, sym.bit_at(v.bits, hi.val))
        return v

    def primary(self):
        t = self.next()
        if t.kind == "operand":
            return self.index_suffix(self.operands[t.value])
        if t.kind == "int":
            return VVal("integer", val=t.value)
        if t.kind == "bool":
            return VVal("boolean", val=t.value)
        if t.kind == "chrlit":
            return VVal("std_logic", 1, int(t.value))
        if t.kind == "strlit":
            return VVal("slv", len(t.value), int(t.value, 2) if t.value else 0)
        if t.kind == "op" and t.value == "(":
            e = self.expr()
            self.expect("op", ")")
            return e
        if t.kind == "id":
            self.expect("op", "(")
            args = [self.expr()]
            while self.peek().kind == "op" and self.peek().value == ",":
                self.next()
                args.append(self.expr())
            self.expect("op", ")")
            return call(self.sx, t.value, args)
        raise TypeError_(f"unexpected token {t}")


def evaluate(text, operands, sx):
    """operands: {placeholder name: VVal}"""
    if isinstance(text, Opaque):
        raise TypeError_("opaque text")
    p = Parser(tokens_of(text, operands), operands, sx)
    v = p.expr()
    if p.peek().kind != "eof":
        raise TypeError_(f"trailing tokens {p.toks[p.i:]}")
    return v
