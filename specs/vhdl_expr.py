"""A small, explicit, TRUSTED transcription of the std_logic_1164 /
numeric_std meaning of the cast expressions the backend emits (DESIGN.md 5.1).

Works on *structured text*: the SFmt returned by the symbolically executed
formatter (literal pieces, symbolic integers, the opaque operand) or, natively,
on the real string.  `evaluate` types and evaluates the expression given the
VHDL value of the operand; widths and values may be z3 terms.

  VVal(kind, width, bits)   kind in unsigned | signed | slv      (bits: unsigned reading)
  VVal("std_logic", 1, b)   b in {0,1}
  VVal("boolean", None, z3 Bool / bool)
  VVal("integer", None, int term)
"""

from __future__ import annotations

import re

import z3

from pyvc import sym
from pyvc.values import Opaque, SFmt, SObj, SRepeat, TextOf

P2 = sym.pow2


class TypeError_(Exception):
    """the expression is ill-typed under numeric_std / std_logic_1164"""


class VVal:
    def __init__(self, kind, width=None, bits=None, val=None):
        self.kind = kind
        self.width = width
        self.bits = bits
        self.val = val

    def __repr__(self):
        return f"VVal({self.kind},{self.width},{self.bits if self.bits is not None else self.val})"

    def signed_value(self):
        w, b = self.width, self.bits
        if isinstance(w, int) and isinstance(b, int):
            return b - 2**w if b >= 2 ** (w - 1) else b
        return sym.Ite(sym.to_z3(b) >= P2(sym.to_int(w) - 1), b - P2(w), b)

    def number(self):
        if self.kind == "unsigned":
            return self.bits
        if self.kind == "signed":
            return self.signed_value()
        if self.kind == "integer":
            return self.val
        raise TypeError_(f"{self.kind} has no numeric value")


ARRAY = ("unsigned", "signed", "slv")

_TOKEN = re.compile(r"\s*(?:(?P<id>[A-Za-z_][A-Za-z_0-9]*'?)|(?P<num>-?\d+)|(?P<str>\"[^\"]*\")|(?P<chr>'[01]')|(?P<op>/=|=|\(|\)|,))")


class Tok:
    def __init__(self, kind, value):
        self.kind, self.value = kind, value

    def __repr__(self):
        return f"{self.kind}:{self.value}"


def tokens_of(text, operand_name="OPND"):
    """token list from structured (SFmt / str) text"""
    parts = text.parts if isinstance(text, SFmt) else [text]
    toks = []
    pending_quote = None  # handling of  "  SRepeat  "
    for p in parts:
        if isinstance(p, str):
            s = p
            pos = 0
            # a string part may end with an opening quote of a repeated-zero literal
            while pos < len(s):
                if s[pos] == '"' and pending_quote is not None:
                    toks.append(Tok("zeros", pending_quote))
                    pending_quote = None
                    pos += 1
                    continue
                if s[pos] == '"' and s.find('"', pos + 1) < 0:
                    pending_quote = "open"
                    pos += 1
                    continue
                m = _TOKEN.match(s, pos)
                if not m:
                    if s[pos:].strip() == "":
                        break
                    raise TypeError_(f"cannot tokenise {s[pos:]!r}")
                pos = m.end()
                if m.group("id"):
                    name = m.group("id")
                    if name == operand_name:
                        toks.append(Tok("operand", None))
                    else:
                        toks.append(Tok("id", name))
                elif m.group("num"):
                    toks.append(Tok("int", int(m.group("num"))))
                elif m.group("str"):
                    toks.append(Tok("strlit", m.group("str")[1:-1]))
                elif m.group("chr"):
                    toks.append(Tok("chrlit", m.group("chr")[1]))
                else:
                    toks.append(Tok("op", m.group("op")))
        elif isinstance(p, SRepeat):
            if pending_quote != "open" or p.unit != "0":
                raise TypeError_("unexpected repeated text")
            pending_quote = p.count
        elif isinstance(p, TextOf):
            v = p.value
            if sym.is_intlike(v):
                toks.append(Tok("int", v))
            elif isinstance(v, SObj):
                toks.append(Tok("literal", v))
            elif isinstance(v, Opaque):
                toks.append(Tok("operand", None))
            else:
                raise TypeError_(f"unexpected embedded value {v!r}")
        elif isinstance(p, Opaque):
            toks.append(Tok("operand", None))
        else:
            raise TypeError_(f"unexpected text piece {p!r}")
    if pending_quote is not None:
        raise TypeError_("unterminated string literal")
    return toks


class Parser:
    def __init__(self, toks, operand, literal_value, sx):
        self.toks = toks
        self.i = 0
        self.operand = operand
        self.literal_value = literal_value
        self.sx = sx

    def peek(self):
        return self.toks[self.i] if self.i < len(self.toks) else Tok("eof", None)

    def next(self):
        t = self.peek()
        self.i += 1
        return t

    def expect(self, kind, value=None):
        t = self.next()
        if t.kind != kind or (value is not None and t.value != value):
            raise TypeError_(f"expected {kind} {value}, got {t}")
        return t

    def expr(self):
        left = self.primary()
        t = self.peek()
        if t.kind == "op" and t.value in ("=", "/="):
            self.next()
            right = self.primary(context=left)
            return self.compare(left, right, t.value)
        return left

    def compare(self, a, b, op):
        if a.kind == "std_logic" and b.kind == "std_logic":
            r = sym.eq(a.bits, b.bits)
        elif a.kind in ("unsigned", "signed") and b.kind == "integer":
            r = sym.eq(a.number(), b.val)
        elif a.kind == "slv" and b.kind == "slv":
            r = sym.And(sym.eq(a.width, b.width), sym.eq(a.bits, b.bits))
            if sym.simp(sym.eq(a.width, b.width)) is False:
                raise TypeError_("slv comparison of different widths")
        else:
            raise TypeError_(f"comparison {a.kind} {op} {b.kind}")
        return VVal("boolean", val=r if op == "=" else sym.Not(r))

    def primary(self, context=None):
        t = self.next()
        if t.kind == "operand":
            return self.operand
        if t.kind == "literal":
            return self.literal_value(t.value)
        if t.kind == "int":
            return VVal("integer", val=t.value)
        if t.kind == "chrlit":
            return VVal("std_logic", 1, int(t.value))
        if t.kind == "strlit":
            return VVal("slv", len(t.value), int(t.value, 2) if t.value else 0)
        if t.kind == "zeros":
            return VVal("slv", t.value, 0)
        if t.kind == "op" and t.value == "(":
            e = self.expr()
            self.expect("op", ")")
            return e
        if t.kind == "id":
            name = t.value
            self.expect("op", "(")
            arg = self.expr()
            n = None
            if self.peek().kind == "op" and self.peek().value == ",":
                self.next()
                n = self.expect("int").value
            self.expect("op", ")")
            return self.apply(name, arg, n)
        raise TypeError_(f"unexpected token {t}")

    def apply(self, name, a, n):
        sx = self.sx
        if name in ("unsigned", "signed", "std_logic_vector", "unsigned'", "signed'", "std_logic_vector'"):
            # type conversion between closely related array types / qualification
            if n is not None or a.kind not in ARRAY:
                raise TypeError_(f"{name}({a.kind})")
            k = {"unsigned": "unsigned", "signed": "signed", "std_logic_vector": "slv"}[name.rstrip("'")]
            if name.endswith("'") and a.kind not in (k, "slv"):
                raise TypeError_(f"qualified expression {name}({a.kind})")
            return VVal(k, a.width, a.bits)
        if name == "resize":
            if n is None or a.kind not in ("unsigned", "signed"):
                raise TypeError_(f"resize({a.kind}, {n})")
            if a.kind == "unsigned":
                return VVal("unsigned", n, sym.pymod(a.bits, P2(n)))
            # signed: widening sign-extends; narrowing keeps the sign bit and the low n-1 bits
            widen = n >= a.width if isinstance(n, int) and isinstance(a.width, int) else sym.to_z3(n) >= a.width
            if sx.branch(widen):
                return VVal("signed", n, sym.pymod(a.signed_value(), P2(n)))
            sign = sym.bit_at(a.bits, sym.to_int(a.width) - 1)
            return VVal("signed", n, sign * P2(sym.to_int(n) - 1) + sym.pymod(a.bits, P2(sym.to_int(n) - 1)))
        if name == "to_unsigned":
            if n is None or a.kind != "integer":
                raise TypeError_("to_unsigned")
            # natural argument; a value that does not fit is truncated (with a warning)
            if not sx.branch(a.val >= 0):
                raise TypeError_("to_unsigned of a negative integer")
            return VVal("unsigned", n, sym.pymod(a.val, P2(n)))
        if name == "to_signed":
            if n is None or a.kind != "integer":
                raise TypeError_("to_signed")
            return VVal("signed", n, sym.pymod(a.val, P2(n)))
        if name == "to_integer":
            if n is not None or a.kind not in ("unsigned", "signed"):
                raise TypeError_(f"to_integer({a.kind})")
            return VVal("integer", val=a.number())
        if name == "cohdl_bool_to_std_logic":
            if a.kind != "boolean":
                raise TypeError_("cohdl_bool_to_std_logic of non-boolean")
            return VVal("std_logic", 1, sym.Ite(a.val, 1, 0))
        raise TypeError_(f"unknown function {name}")


def evaluate(text, operand, sx, literal_value=None):
    toks = tokens_of(text)
    p = Parser(toks, operand, literal_value or (lambda v: (_ for _ in ()).throw(TypeError_("literal"))), sx)
    v = p.expr()
    if p.peek().kind != "eof":
        raise TypeError_(f"trailing tokens {p.toks[p.i:]}")
    return v
