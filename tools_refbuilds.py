#!/usr/bin/env python3
"""Regression helper for `fix:` commits (not a check, not registered in MANIFEST.json).

The repository's reference designs (tests/reference_builds/**) cannot be simulated here (cocotb / ghdl are not
installed -- these are the suite's 201 collection errors), but they can be COMPILED: every cohdl.Entity subclass defined
in those modules is compiled to VHDL with cocotb / cohdl_testutil stubbed, one interpreter per module, and the sha256 of
the text is printed.  Usage:

    /venv/bin/python tools_refbuilds.py <repo tree>  > hashes.json        # e.g. a worktree of an older commit
    /venv/bin/python tools_refbuilds.py --diff a.json b.json               # which designs changed

A repair of a defect must leave every design the defect does not concern byte-identical.
"""
import glob
import hashlib
import json
import os
import subprocess
import sys

CHILD = r'''
import sys, types, hashlib, json, importlib.util, inspect
class _Any:
    def __init__(self, *a, **k): pass
    def __call__(self, *a, **k):
        if len(a) == 1 and callable(a[0]) and not k: return a[0]
        return _Any()
    def __getattr__(self, n): return _Any()
    def __mro_entries__(self, bases): return (object,)
for name in ("cocotb", "cocotb.triggers", "cocotb.clock", "cocotb.types", "cocotb.handle", "cocotb_test", "cocotb_test.simulator", "cohdl_testutil", "cohdl_testutil.cocotb_util", "cohdl_testutil.cocotb_mock"):
    m = types.ModuleType(name); sys.modules[name] = m
    def _ga(n):
        if n.startswith("__"): raise AttributeError(n)
        return _Any()
    m.__getattr__ = _ga
sys.modules["cohdl_testutil"].cocotb_util = sys.modules["cohdl_testutil.cocotb_util"]
import cohdl
from cohdl import std
path = sys.argv[1]
spec = importlib.util.spec_from_file_location("refmod", path)
mod = importlib.util.module_from_spec(spec); sys.modules["refmod"] = mod
out = {}
try:
    spec.loader.exec_module(mod)
except BaseException as e:
    print(json.dumps({"<import>": "ERROR " + type(e).__name__})); sys.exit(0)
for name, obj in sorted(vars(mod).items()):
    if inspect.isclass(obj) and issubclass(obj, cohdl.Entity) and obj.__module__ == "refmod":
        try:
            out[name] = hashlib.sha256(std.VhdlCompiler.to_string(obj).encode()).hexdigest()[:16]
        except BaseException as e:
            out[name] = "REJECTED " + type(e).__name__
print(json.dumps(out))
'''


def main():
    if sys.argv[1] == "--diff":
        a, b = (json.load(open(p)) for p in sys.argv[2:4])
        changed = {k: (a.get(k), b.get(k)) for k in sorted(set(a) | set(b)) if a.get(k) != b.get(k)}
        print(json.dumps({"designs": len(set(a) | set(b)), "changed": changed}, indent=1))
        return
    tree = os.path.abspath(sys.argv[1])
    env = dict(os.environ, PYTHONPATH=tree, PYTHONHASHSEED="0")
    res = {}
    files = sorted(glob.glob(os.path.join(tree, "tests", "reference_builds", "**", "test_*.py"), recursive=True))
    procs = []
    for f in files:
        procs.append((f, subprocess.Popen(["/venv/bin/python", "-c", CHILD, f], env=env, stdout=subprocess.PIPE, stderr=subprocess.DEVNULL, text=True, cwd=os.path.dirname(f))))
        if len(procs) >= 16:
            for ff, p in procs:
                o, _ = p.communicate(timeout=600)
                rel = os.path.relpath(ff, tree)
                try:
                    for k, v in json.loads(o.strip().split("\n")[-1]).items():
                        res[f"{rel}:{k}"] = v
                except Exception:
                    res[f"{rel}:<crash>"] = "CRASH"
            procs = []
    for ff, p in procs:
        o, _ = p.communicate(timeout=600)
        rel = os.path.relpath(ff, tree)
        try:
            for k, v in json.loads(o.strip().split("\n")[-1]).items():
                res[f"{rel}:{k}"] = v
        except Exception:
            res[f"{rel}:<crash>"] = "CRASH"
    json.dump(res, sys.stdout, indent=0, sort_keys=True)


if __name__ == "__main__":
    main()
