"""Per-property configuration of the checks (see DESIGN.md section 6)."""

COMMON_ASSUME = [
    "Python semantics assumed by the encoding (DESIGN.md 5.2): mathematical ints, left-to-right evaluation, bool subclass of int, assert/raise messages are not evaluated",
    "2**e is the uninterpreted pow2 with ground-instantiated axioms (sound, incomplete)",
    "bit order of every vector is DOWNTO (BitVector[n] / BitVector[n-1:0]); UPTO vectors are outside the contracts",
]

BITLEVEL_ASSUME = [
    "ASSUMED at call sites, backed by the bounded native check of the real function (not proved): Unsigned/Signed.to_int, Unsigned.add / Signed.add ripple-carry loop, _uint_to_binary/_int_to_binary, BitVector.__init__ bit copy, BitVector.__invert__/copy/left/right",
]

VHDL_ASSUME = [
    "numeric_std / std_logic_1164 operator semantics are those transcribed in specs/cohdl_semantics.py (no VHDL tool in the sandbox); counterexamples are replayed against the Python code only",
]

C05_MODULES = ["contracts.core_models", "contracts.c09_arith", "contracts.c09_bounded", "contracts.c05_convert", "contracts.c05_format_cast", "contracts.c05_setters", "contracts.c05_join", "contracts.c05_castsetter", "contracts.c13_array", "contracts.c05_arrays"]

C13_MODULES = ["contracts.core_models", "contracts.c09_bounded", "contracts.c13_types", "contracts.c13_views", "contracts.c13_array", "contracts.c13_refspec", "contracts.c13_alias", "contracts.c09_tqparts", "contracts.c05_format_cast", "contracts.c02_ops", "contracts.c08_temporaries", "contracts.c08_cleanup", "contracts.c12_actuals", "contracts.c05_castsetter", "contracts.c12_instances"]

C06_MODULES = C05_MODULES + ["contracts.c13_types", "contracts.c13_views", "contracts.c06_names", "contracts.c06_ports", "contracts.c06_stmts", "contracts.c06_literals", "contracts.c02_ops", "contracts.c06_sensitivity", "contracts.c03_refvisit", "contracts.c06_text", "contracts.c06_library", "contracts.c02_replace", "contracts.c12_instances"]

C02_MODULES = C05_MODULES + ["contracts.c13_types", "contracts.c13_views", "contracts.c02_ops", "contracts.c02_frontend", "contracts.c02_replace", "contracts.c02_assembler", "contracts.c03_lowering", "contracts.c13_refspec", "contracts.c09_tqparts"]

PROPERTIES = {
    "C02": {
        "modules": C02_MODULES,
        "level": "proof",
        "explanation": "the chain from a Python operator to emitted logic is decided link by link, each from the real source for symbolic widths and values: (1) every operator replacement of TypeQualifier yields the IR operator the statement assigns to that Python operator, over the operands in source order, with the Python-side result (68 obligations); (2) the comparison dispatch of PrepareAst (nested single_compare) falls back to the REFLECTED method with swapped operands, value = lhs OP rhs; all()/any() fold constants exactly when run-time elements cannot change the outcome (arrangements up to 3 elements); (3) the Python-side result of every arithmetic operator equals the documented semantics (C09 contracts: kind, width, wrapped value; bit-level BitVector operators bounded); (4) the backend writers BinOp/Compare/UnaryOp.write emit text that, read with numeric_std / std_logic_1164 semantics (specs/vhdl_ops.py), is well typed and has the documented type, width and value for every operator and operand-type combination the front end accepts (arithmetic, element-wise, concatenation with the left operand as most significant bits, shifts logical/arithmetic, comparisons, invert/negate/abs); (5) casts around operands and results (format_cast) carry the bits of the conversion matrix; nested slices and typed views keep their offsets (C13 contracts) and VhdlScope._format_ref writes a slice / constant index whose text denotes exactly the referenced bits of the parent for symbolic bounds and accumulated base offsets; (6) the two translation steps in between are structure preserving: IrGenerator._apply_impl evaluates the operands left to right and emits one IR node with the same operator over the operands' results in source order, _StmtAssembler.apply turns every IR statement kind into the vhdl node with the same operator, operands, result and assignment kind (signal assignment in concurrent, variable assignment in sequential contexts). Session 5: run-time index into a slice with a non-zero base offset is rejected; bitwise operators on run-time integers are rejected; negative cohdl.Integer constants are written as NATURAL like Python ints; `!=` of classes with __eq__ only is the inverted traced __eq__.",
        "assumptions": COMMON_ASSUME + BITLEVEL_ASSUME + VHDL_ASSUME + [
            "the numeric_std / std_logic_1164 meaning of the emitted operators is the trusted transcription specs/vhdl_ops.py + specs/vhdl_expr.py (no VHDL simulator is available to cross-check it)",
            "operand lemma: an operand expression writes text whose VHDL type and value are those of the CoHDL type and value of its .result (established by format_cast / format_vhdl_cast; format_value's reference chain _format_ref is covered for typed views and slices by the C13 contracts, not re-proved here)",
            "if-expressions and select_with: the IR selection per merged value (IrGenerator._apply_impl, IfExpr / SelectWith branches: target_i <= body_i when test else orelse_i; choice_j -> source_{j,i}, default) and its translation to with-select / case are under contract; the tracer side that records the redirects (_value_branch._MergedBranch, _try_join, _redirect) is NOT",
            "NOT decided here: enum and array operands, run-time indexed element access; whole expression TREES are covered compositionally (each node under the operand lemma), not by an end-to-end evaluation of emitted designs",
        ],
        "canaries": [
            {"name": "binop-operand-order", "contract": "cohdl._compiler.backend.vhdl._vhdl_repr:BinOp.write", "case": "SUB:Unsigned,Unsigned", "file": "cohdl/_compiler/backend/vhdl/_vhdl_repr.py",
             "old": "        return f\"({lhs}) {op} ({rhs})\"", "new": "        return f\"({rhs}) {op} ({lhs})\""},
            {"name": "reflected-compare", "contract": "cohdl._compiler.frontend._prepare_ast:PrepareAst.apply_impl.<single_compare>", "case": "GtE:A,B", "file": "cohdl/_compiler/frontend/_prepare_ast.py",
             "old": "                    return evaluate(\"__ge__\", \"__le__\")", "new": "                    return evaluate(\"__ge__\", \"__lt__\")"},
            {"name": "all-folding", "contract": "cohdl._compiler.frontend._prepare_ast:PrepareAst.convert_intrinsic", "case": "all:[FT]", "file": "cohdl/_compiler/frontend/_prepare_ast.py",
             "old": "                        always_false = always_false or not expr_result", "new": "                        always_false = not expr_result"},
            {"name": "reflected-operand-order", "contract": "cohdl._core._type_qualifier:TypeQualifier.<replacement of __rsub__>", "case": "value", "file": "cohdl/_core/_type_qualifier.py",
             "old": "            intr_op.BinaryOperator.SUB, self.__rsub__(other), other, self", "new": "            intr_op.BinaryOperator.SUB, self.__rsub__(other), self, other"},
        ],
    },
    "C03": {
        "modules": C05_MODULES + ["contracts.c08_temporaries", "contracts.c08_cleanup", "contracts.c03_lowering", "contracts.c03_condselect", "contracts.c04_reset", "contracts.c04_wrappers", "contracts.c02_assembler", "contracts.c13_types", "contracts.c06_stmts", "contracts.c02_frontend", "contracts.c03_decl", "contracts.c03_refvisit", "contracts.c13_refspec", "contracts.c03_out", "contracts.c10_frontend", "contracts.c03_match", "contracts.c02_replace", "contracts.c03_for", "contracts.c13_alias", "contracts.c03_with", "contracts.c03_if", "contracts.c13_views", "contracts.c03_attr"],
        "level": "proof",
        "explanation": "the statement is decided per lowering step, each proved from the real source: (1) the setter replacements of Signal/Variable/Temporary (<<=, .next, ^=, .push, @=, .value) accept exactly the documented target kinds and produce the assignment mode of the operator (C05 setter contracts); (2) IrGenerator._apply_impl lowers an assignment to exactly one SignalAssignment / SignalPush / VariableAssignment per open block according to mode, target kind and context kind (temporaries: immediate in sequential, continuous in concurrent contexts); (3) after an if/else execution continues in exactly the end blocks of both branches (25 x 2 arrangements of how branches end, incl. returns and state transitions), the If node being placed before its branches; (4) ir.Sequential._pushed_resettable_signals gives every pushed root -- also noreset roots and roots pushed only through a slice -- its default at the start of each step (reset_pushed), per event for arbitrary prior sets; (5) the process bodies built by std.sequential execute reset_pushed and then the user step exactly when trigger and step condition hold; (6) cleanup_bool_cast only replaces intermediates whose source is an intermediate, so a bool() taken before a later variable update keeps the old value. Session 5: `if` tests are the boolean cast of the tested value (c03_if); `with` blocks call __exit__ once on every path that leaves them (c03_with); the subject of a match and the iterable of a for-loop / comprehension are evaluated exactly once, in front of the selection (c03_match, c03_for); chained comparisons evaluate the middle operand once; the hoisted always expression is a separate driver (c04_reset, c07_drivers).",
        "assumptions": COMMON_ASSUME + [
            "VHDL signal / variable semantics (a signal assignment in a process takes effect after the process suspends, the last one wins, unassigned signals hold; variables update immediately; concurrent assignments are continuous) are those of the language standard -- the contracts decide which VHDL statement kind each CoHDL assignment becomes, not the standard's semantics",
            "conditional chains: the lowering of out.CondSelect (what if/elif chains, match statements and for-break chains become in the tracer's output) is under contract -- one case statement over a common value with constant choices, else the nested if chain in source order, default last (542 arrangements of condition kinds, defaults, returns / breaks / transitions, 1-2 open blocks); that the tracer BUILDS the CondSelect with the branches in source order (_prepare_ast.py ast.For / ast.Match / ast.If) is NOT",
            "NOT decided: function inlining with return-value redirects (_value_branch._Redirect), capture of run-time indices at access time (_IntrinsicElemAccess): whole-AST transformations over the tracer state, outside the per-function contracts built so far",
            "input SEQUENCES are covered by induction over activations only in the sense that every activation runs the same proved step structure; no simulator executes emitted designs",
            "BOUNDED (contracts.c05_arrays.array_assign_sweep, native): whole-array assignments in the three modes -- the statements of the emitted process are evaluated for one activation (6 forms x 5 kinds of source), a pushed array signal starts the process with its default",
        ],
        "extra": ["contracts.c05_arrays.array_assign_sweep"],
        "canaries": [
            {"name": "if-continuation", "contract": "cohdl._compiler.frontend._generate_ir:IrGenerator._apply_impl", "case": "if:body=own,orelse=x+y,1-open", "file": "cohdl/_compiler/frontend/_generate_ir.py",
             "old": "                        for open in open_orelse:\n                            ret_blocks[open] = open\n                    elif not any_orelse:", "new": "                        for open in open_body:\n                            ret_blocks[open] = open\n                    elif not any_orelse:"},
            {"name": "temporary-in-concurrent", "contract": "cohdl._compiler.frontend._generate_ir:IrGenerator._apply_impl", "case": "assign:Temporary,AUTO,CONCURRENT,1-open", "file": "cohdl/_compiler/frontend/_generate_ir.py",
             "old": "                    assert self._mode is IrGenerator.Mode.CONCURRENT\n                    for block in open_blocks:\n                        block.append(ir.SignalAssignment(target, value))", "new": "                    assert self._mode is IrGenerator.Mode.CONCURRENT\n                    for block in open_blocks:\n                        block.append(ir.VariableAssignment(target, value))"},
        ],
    },
    "C04": {
        "modules": ["contracts.core_models", "contracts.c04_reset", "contracts.c04_wrappers", "contracts.c04_misc", "contracts.c20_memory"],
        "level": "proof",
        "explanation": "reset behaviour is decided at its two implementation points, both proved from the real source: (1) the process bodies std._context._sequential_impl builds (no reset / asynchronous / synchronous): for arbitrary truth values of trigger, reset and step condition the activation performs exactly reset_context followed by every on_reset action when reset is active (asynchronous: whatever the trigger; synchronous: at the trigger, whatever the step condition) and nothing else, otherwise reset_pushed + the user step when trigger and step condition hold; the sensitivity list contains the reset signal exactly for asynchronous resets; (2) ir.Sequential._pushed_resettable_signals expands reset_context into exactly one default assignment per root written or pushed in the context that has a default and is not noreset -- flags and default are those of the ROOT also when the access goes through a slice or view; roots without default or marked noreset get none; all objects are collected before the statements are rewritten (event streams enumerated, per-event contract for arbitrary prior sets). Session 5: std.Reset.__bool__ / active_high_signal / active_low_signal (level as a function of 'reset is active'); _sequential_impl rejects reset / on_reset without a clock; objects driven by the hoisted always expression are not reset inside the process. BOUNDED: reset_config_sweep (axi entity configurations; reset branch == declaration default for ClockDivider / continuous_counter / ToggleSignal).",
        "assumptions": COMMON_ASSUME + [
            "'an embedded coroutine returns to its first state': the state variable of a statemachine is an ordinary written signal with a default (ir.Statemachine.as_case_when), so it is covered as a resettable root; that as_case_when declares it with the first state as default is not under contract",
            "polarity: std.Reset.__bool__ / active_high_signal / active_low_signal are under contract (level of the result as a function of 'reset is active', both polarities, inside and outside a synthesizable context); the clock edge selection of std.Clock is modelled as an arbitrary truth value, its own definition is not under contract",
            "BOUNDED (contracts.c04_extra.reset_config_sweep, native): axi4_light.base_entity / addr_map_entity build their context with exactly the requested reset polarity / clock edge (all 16 configurations); ClockDivider, continuous_counter, ToggleSignal: the last value assigned in the reset branch of the emitted process equals the declaration's initial value (textual, 20 configurations)",
            "'from any state', 'after reset is released behaves as after power-up': follows from the structure above (reset assigns every resettable root its power-up default and executes nothing else); it is argued, not machine-checked over reachable design states -- no simulator",
            "locally constructed objects (no default, re-initialised by re-executing their declaration, _init_replacement) are not under contract",
        ],
        "extra": ["contracts.c04_extra.reset_config_sweep"],
        "canaries": [
            {"name": "sync-reset-ignores-step-cond", "contract": "cohdl.std._context:_sequential_impl.<helper.wrapper#2 (sync reset)>", "case": "sync-reset,function", "file": "cohdl/std/_context.py",
             "old": "                if trigger:\n                    if reset:\n                        cohdl.reset_context()", "new": "                if trigger:\n                    if step_cond() and reset:\n                        cohdl.reset_context()"},
            {"name": "noreset-of-root", "contract": "cohdl._core._ir._repr:Sequential._pushed_resettable_signals.<visit_objects>", "case": "view:WRITE", "file": "cohdl/_core/_ir/_repr.py",
             "old": "                if root.has_default() and not root._noreset:", "new": "                if root.has_default() and not obj._noreset:"},
        ],
    },
    "C10": {
        "modules": ["contracts.core_models", "contracts.c02_frontend", "contracts.c10_frontend", "contracts.c10_subset", "contracts.c11_frames", "contracts.c03_for"],
        "level": "other",
        "explanation": "PROVED from the real source (tracer state abstracted to the calls the code makes): the comparison dispatch (nested single_compare: reflected method with swapped operands, 6 operators x implemented / NotImplemented on either side), the binary operator dispatch (nested overloaded_operator: lhs.__op__ first, rhs.__rop__ when that is missing or NotImplemented, rejection when neither applies), all()/any() over mixed constant / run-time elements (and/or yield the truth value; arrangements up to 3 elements), list and dict comprehensions with 0-2 conjunctive conditions over up to 3 elements (symbolic condition values). BOUNDED (labelled, never counted as proved): FunctionDefinition.bind_args against the CPython call itself for every signature shape (<= 2 positional-only, <= 2 positional-or-keyword, <= 2 keyword-only parameters, optional *args / **kwargs, all default patterns, functions and bound methods) and every call shape (<= n+1 positional arguments, <= 3 keywords incl. a foreign name): same binding, or a rejection exactly when CPython raises TypeError. Also PROVED: zero-argument super() binds to the __class__ cell of the defining class and the first argument (method of a middle class on an instance of a subclass). Also BOUNDED: PrepareAst._split_target against the CPython assignment statement (<= 5 targets, star anywhere or absent, sources of 0..7 elements: same split, rejection exactly on ValueError) and _ScopeBase._capture_env against LEGB (closure cell before module global before builtin, every placement of one free name). Added later: PROVED from the real source, the keyword collection of a call (apply_impl, ast.Call: explicit keywords and ** mappings in every order; a keyword given twice or a non-string key is rejected as CPython does) and the default values of local functions / lambdas (bound as the values CPython binds, in CPython's order); BOUNDED: bind_args leaves the caller's argument containers untouched (frame), the starred target is a list for list and tuple sources, the definition compiled for a functools.wraps wrapper is the wrapper's. Session 5: the operator table of the ast.BinOp branch (13 operators x forward / reflected), constant comparison chains, `!=` for classes with __eq__ only, undefined free names (builtins dictionary), the definition cache is discarded on every exit of a compilation.",
        "assumptions": COMMON_ASSUME + [
            "bind_args only moves argument objects (it never inspects them): distinct marker objects per argument make each shape's comparison complete; shapes beyond the bound are not covered",
            "NOT decided: name classification (_ClassifyNames, ScopeRef), classes / inheritance / properties / __call__ emulation, subscripts, constant if / for / if-expressions, isinstance / type checks -- the remaining branches of the 1400-line apply_impl dispatcher and the whitelist of intrinsic builtins have no contract yet; 'all generated programs' is not approached by per-function contracts",
            "a rejection (any exception) where CPython would compute a value is allowed by the statement and not reported",
        ],
        "extra": ["contracts.c10_bind.bind_sweep", "contracts.c10_subset.subset_sweep"],
        "canaries": [
            {"name": "comprehension-conjunction", "contract": "cohdl._compiler.frontend._prepare_ast:PrepareAst.apply_impl", "case": "listcomp:2-elements,2-ifs", "file": "cohdl/_compiler/frontend/_prepare_ast.py",
             "old": "                    if not ifexpr_result:\n                        excluded = True\n\n                    bound_expr.append(ifexpr_converted)\n\n                if not excluded:\n                    result_expr.append(expr)", "new": "                    excluded = not ifexpr_result\n                    pass\n\n                    bound_expr.append(ifexpr_converted)\n\n                if not excluded:\n                    result_expr.append(expr)"},
            {"name": "reflected-operand-swap", "contract": "cohdl._compiler.frontend._prepare_ast:PrepareAst.apply_impl.<overloaded_operator (binary)>", "case": "lhs=N,rhs=I", "file": "cohdl/_compiler/frontend/_prepare_ast.py",
             "old": "                    ObjTraits.getattr(type_rhs, reverse_op), [val_rhs, val_lhs], {}", "new": "                    ObjTraits.getattr(type_rhs, reverse_op), [val_lhs, val_rhs], {}"},
        ],
    },
    "C12": {
        "modules": ["contracts.core_models", "contracts.c13_types", "contracts.c06_ports", "contracts.c12_instances", "contracts.c12_register", "contracts.c08_temporaries", "contracts.c08_cleanup", "contracts.c12_actuals", "contracts.c03_decl", "contracts.c06_text"],
        "level": "proof",
        "explanation": "the structural half of the statement is decided function by function, each proved from the real source: (1) Entity._port_declarations emits exactly the declared ports, in declaration order, each line starting with the declared name and carrying the declared direction, and only returns when declared name == scope name (C06 contract, symbolic names); (2) cohdl.Entity.__init__ associates every formal with exactly the actual passed for it, rejects unknown names, missing actuals and incompatible actuals, and removes the default only from the object an instance output drives (a slice actual leaves the rest of its root initialised); (3) EntityInst._port_map / _generic_map list every formal once, in declaration order, with the text of its own actual for every order of the actuals dictionary; (4) VhdlAssembler.apply converts an entity template once (cache hit returns the converted entity, a new conversion is registered), declares its ports in order under their declared names, and gives every output port one buffer initialised with the port's default whenever it has one; (5) Library.from_top_entity lists every entity once, sub-entities before their users, over instantiation DAGs incl. shared templates; (6) _register_block / _register_context / on_block_exit attach to the innermost open block (stack depth 0-3); (7) ConvertInstance.apply keeps the assignment of an intermediate (or a slice of one) that is the actual of an instance port. BOUNDED: Entity.__init_subclass__ under inheritance (base / sibling / second-level classes adding ports in both orders): each class's declared and emitted interface is its inherited ports followed by its own, port dicts are not shared. Session 5: the trial assignment of actuals works for every port type incl. enumerations and leaves the declared port objects untouched (both places); scalar formals need actuals of the same scalar type; the instantiation statement names the architecture as written (c06_text); ConvertInstance.apply keeps the ROOT of a view actual alive.",
        "extra": ["contracts.c12_extra.interface_sweep"],
        "assumptions": COMMON_ASSUME + [
            "behavioural equivalence of instantiation and inlining 'for all input sequences' is the VHDL semantics of component instantiation with named association, given the structural facts above; it is not executed (no simulator)",
            "instantiation shapes are enumerated (<= 3 formals, <= 2 template ports per kind combination, 7 instantiation DAGs up to 4 entities); names, types and values are arbitrary within a shape",
            "NOT decided: ConvertPythonInstance.apply / ConvertInstance.apply template caching on the front-end side (identity of EntityTemplate per entity class), instances created inside contexts (inline entities placed by the tracer), format_target / format_value of slice and typed-view actuals (covered by the C05/C13 contracts as operand lemma)",
        ],
        "canaries": [
            {"name": "buffer-default-falsy", "contract": "cohdl._compiler.backend.vhdl._vhdl_assembler:VhdlAssembler.apply", "case": "template:[out/0]", "file": "cohdl/_compiler/backend/vhdl/_vhdl_assembler.py",
             "old": "                if port.has_default():", "new": "                if port.default():"},
            {"name": "default-removed-from-root", "contract": "cohdl._core._context:Entity.__init__", "case": "connect:output-through-slice", "file": "cohdl/_core/_context.py",
             "old": "                    port_def._default = None", "new": "                    port_def._root._default = None"},
        ],
    },
    "C14": {
        "modules": ["contracts.core_models", "contracts.c14_fifo", "contracts.c14_views", "contracts.c14_indirect"],
        "level": "proof",
        "explanation": "step contracts of the REAL methods of std.Fifo and std.Stack over a ghost model of clocked signals, for SYMBOLIC capacity N (power of two or not), index values, memory content and data. Fifo: _next_index(i) == (i+1) mod N; the concurrent block of __init__ drives empty <=> size == 0 and full <=> size == N-1 (capacity N-1); against the queue view size = (wr-rd) mod N, elem(k) = mem[(rd+k) mod N]: push appends the element and keeps every other position, pop returns the oldest element and shifts the rest, push and pop in the same clock (either order) do both -- the inductive step of 'delivers elements in exactly the order they were pushed, without loss or duplication'; locally, for shared and for separate (synchronised) index signals, push writes at and advances the producer's own index, pop / front read at and pop advances the consumer's own index. Stack (both modes): push / pop / front / reset / empty / full / size against the list view, drop-old mode discarding exactly the oldest element on a push to a full stack. Session 5: the *_indirect flags of Fifo / SyncFlag are driven concurrently from the flag of the current context's role; SyncFlag._impl_tx_delay returns True exactly on the first call (c14_indirect).",
        "assumptions": COMMON_ASSUME + [
            "signal semantics of a clocked context (a scheduled value becomes visible at the next clock, the last assignment wins, reads see the old value; memory writes use the index value at the time of the access) are assumed -- they are the VHDL meaning of the statements the methods emit (C03)",
            "object state as established by __init__ (index signals of type Unsigned.upto(N-1) resp. upto(N), i.e. width bit_length, N memory elements, the flags) is the precondition of the step contracts; __init__ itself is under contract only for its empty/full block",
            "the whole-history statement follows by induction over clocks from the step contracts and the initial state (indices 0: empty queue / stack); the induction itself is argued, not machine-checked",
            "NOT decided: the delay configuration's index synchronisation (SyncFlag ping-pong across two contexts, _impl_sync_read_index / _impl_sync_write_index, _cmp_full / _cmp_empty per context) -- a two-process protocol over time, outside per-function contracts; element storage through std.Array serialisation is C17's subject",
        ],
        "canaries": [
            {"name": "wrap-guard", "contract": "cohdl.std.utility:Fifo._next_index", "case": "not-pow2", "file": "cohdl/std/utility.py",
             "old": "        if is_pow_two(self._max_index + 1):", "new": "        if is_pow_two(self._max_index):"},
            {"name": "pop-reads-own-index", "contract": "cohdl.std.utility:Fifo.pop", "case": "local:pow2,separate-index-signals", "file": "cohdl/std/utility.py",
             "old": "        return self._mem.get_elem(self._set_read_index, qualifier)", "new": "        return self._mem.get_elem(self._read_index, qualifier)"},
            {"name": "drop-old-count", "contract": "cohdl.std.utility:Stack.push", "case": "DROP_OLD", "file": "cohdl/std/utility.py",
             "old": "            self._cnt <<= self._count_ if self._cnt == self._count_ else (self._cnt + 1)", "new": "            self._cnt <<= self._cnt + 1"},
        ],
    },
    "C20": {
        "modules": ["contracts.core_models", "contracts.c09_arith", "contracts.c13_types", "contracts.c13_views", "contracts.c20_regs", "contracts.c20_axi", "contracts.c20_memory"],
        "level": "other",
        "explanation": "only the per-function half of the statement is within reach of contracts and is what this check decides: (0) PROVED with a sidecar loop invariant (one iteration = one clock, arbitrary valid timing on both write channels, either order): Axi4Light.await_write_request returns exactly the address/prot presented in the clock the address channel was taken and the data/strobe presented in the clock the data channel was taken, leaves the loop exactly when both were taken and withdraws each ready once its channel was taken; send_read_resp / send_write_response raise valid together with the payload and lower it only in a clock in which ready was seen, await_read_request offers ready, withdraws it only after valid was seen and returns the payload of that clock (`await` on a handshake signal = clock boundary in which the signal is high); the dispatch loops proc_read / proc_write of connect_addr_map serve every request with exactly one response, read exactly the first register whose range contains the address (response = its value, 0 for an unmapped address) resp. write exactly that register once with (address, data, Mask(stretch(strobe, 8))) and no register for an unmapped address (0-3 registers, arbitrary containment); (1a) PROVED for symbolic offsets: RegisterObject.__init__ and RegFile.__init__ place an object at parent's GLOBAL offset + own offset (so decode addresses add up over every level of nesting); BOUNDED: reg32.Output._on_write_ / Input._on_read_ executed natively for 10 placements of the signal inside the word (offset / padding / lsbs / msbs), all 16 byte strobes, old and written values, against an integer reference (exactly the strobed bytes change); (1) PROVED from the real source for symbolic address width, address, offset and size: RegisterObject._contains_addr_(addr) <=> offset <= addr < offset + size on both the shift-compare path (power-of-two size at an aligned offset) and the range-compare path -- 'exactly the addressed register', 'unmapped addresses select nothing'; (2) mechanical and exhaustive over the source: every stage of the bus write path that receives the byte-strobe mask applies it, hands it on, or stores nothing (known finding: field-based Register drops it); (3) BOUNDED (labelled): stretch(strb, k) and Mask.apply / apply_mask give new bits exactly in the strobed bytes. What the coroutine contracts establish is per call and at source level (the order of assignments and clock boundaries of each coroutine, one response per request in each dispatch iteration). NOT decided: that the state machines the compiler emits for these coroutines realise that order clock-accurately (C01, not applicable to this technique), the interplay of the read and write processes, and the master's view of ready/valid over whole transaction sequences; no simulator is available. Session 5 (BOUNDED): field_extract_sweep (Register._from_bits_ for 7 underlying field types x offsets x data words), layout_sweep (_flatten_ accepts exactly the disjoint layouts of multi-word objects / array elements).",
        "assumptions": COMMON_ASSUME + [
            "first-match dispatch over the flattened register list (connect_addr_map: `for reg in regs: if reg._contains_addr_(addr): ...; break`) selects exactly one register because _flatten_ asserts strictly increasing, non-overlapping ranges; that assertion and the loop are read, not under contract",
            "coroutine contracts: `await` on a handshake signal is modelled as a clock boundary in which that signal is high, coroutine calls run to completion; the clock-accurate translation of coroutines into state machines is C01's subject and is assumed here",
            "the master side (read_word / write_word), std.axi.axi4_light.base_entity / addr_map_entity wiring and the register classes beyond decode and mask handling (fields, notifications, arrays, Memory) are not under contract",
            "is_pow_two / int_log_2 are uninterpreted in the decode proof, constrained only for the object's size",
        ],
        "extra": ["contracts.c20_extra.mask_dataflow", "contracts.c20_extra.field_kinds", "contracts.c20_extra.mask_sweep", "contracts.c20_regsweep.register_sweep", "contracts.c20_layout.field_extract_sweep", "contracts.c20_layout.layout_sweep", "contracts.c20_layout.map_keys_sweep"],
        "canaries": [
            {"name": "decode-alignment", "contract": "cohdl.std.reg.reg:RegisterObject._contains_addr_", "case": "pow2-unaligned", "file": "cohdl/std/reg/reg.py",
             "old": "        if std.is_pow_two(unit_count) and global_offset % unit_count == 0:", "new": "        if std.is_pow_two(unit_count):"},
        ],
    },
    "C17": {
        "modules": ["contracts.core_models", "contracts.c17_proofs", "contracts.c09_bounded", "contracts.c13_types", "contracts.c13_views", "contracts.c13_refspec", "contracts.c02_replace"],
        "level": "other",
        "explanation": "two layers. PROVED from the real source (number of members enumerated, member widths symbolic): Record._make_serializable assigns member i the slice [w_0+..+w_i-1 : w_0+..+w_{i-1}] (first member at bit 0, contiguous, total = sum) and recomputes the layout unless the class' OWN __dict__ holds one (an inherited layout is not reused); Record._get_reverse_elem_list yields the members in reverse DECLARATION order for every construction order of the instance. BOUNDED (labelled, never counted as proved): the real std.to_bits / from_bits / count_bits / Serialized / BitField are executed on every bit pattern of every type composition of a pool (Bit, bool, BitVector/Unsigned/Signed, Enum/FlagEnum incl. sparse, SFixed/UFixed, cohdl.Array, std.Array incl. nested and of records, records nested / inherited twice / empty-derived / templated with nested templated members, records holding arrays of records) up to 10 (quick) / 13 (thorough) bits and compared with a reference decoding written from the property statement: decode, round trip, width == count_bits, wrong widths rejected, keyword construction in every order, Serialized.from_raw/value/bits, BitField field reads and writes touching exactly the declared range. Session 5: Offset / Slice.simplify (frame clause) and the reflected `@` replacement also count here. BOUNDED: template_key_sweep (keys of SFixed / UFixed specialisations are equal exactly for equal formats).",
        "assumptions": COMMON_ASSUME + [
            "the dispatch of to_bits/from_bits (_FromBits.__call__, std.Array._from_bits_/_to_bits_, Enum/SFixed/UFixed/BitField adapters) is traced higher-order code over type-qualified values: covered by the bounded sweep only",
            "'identical in emitted logic' is not executed (no VHDL simulator): serialisation in a synthesizable context runs the same Python functions on signals; the emitted slices/concats rest on the slice-offset contracts of C02/C13",
            "BitField writes are observed through Variable-backed fields with .value (eager evaluation outside the compiler)",
        ],
        "extra": ["contracts.c17_serial.serial_sweep", "contracts.c17_extra.template_key_sweep", "contracts.c17_extra.nested_bitfield_sweep"],
        "canaries": [
            {"name": "slice-off-by-one", "contract": "cohdl.std._record:_make_serializable", "case": "3-members", "file": "cohdl/std/_record.py",
             "old": "        slice_map[name] = slice(elem_start + width - 1, elem_start)", "new": "        slice_map[name] = slice(elem_start + width, elem_start)"},
            {"name": "inherited-layout-reused", "contract": "cohdl.std._record:_make_serializable", "case": "2-members-inherited", "file": "cohdl/std/_record.py",
             "old": "    if \"_cohdlstd_bitcount\" in cls.__dict__:", "new": "    if hasattr(cls, \"_cohdlstd_bitcount\"):"},
        ],
    },
    "C19": {
        "modules": ["contracts.core_models", "contracts.c09_arith", "contracts.c13_types", "contracts.c13_views", "contracts.c19_proofs"],
        "level": "other",
        "explanation": "two layers. PROVED from the real source for SYMBOLIC formats [left:right] and raw values: SFixed/UFixed.__add__/__sub__/__mul__ return a value of some format whose represented number is exactly a (op) b (UFixed a-b wraps modulo the result range), including that the raw vector handed to the result constructor has the width of the result format (the real __init__ raw branch and std.Value are interpreted); __eq__ requires equal formats and then compares represented numbers. The raw-vector arithmetic used is the proved C09 contract of Signed/Unsigned (resize, +, -, *); nonlinear steps are instances of lemma schemas proved by the solver on every run (pyvc/lemmas.py). BOUNDED (labelled, never counted as proved): resize_fn (every source format x target format x round style x overflow style x raw value within the bound, against exact rational arithmetic: floor / ties-to-even, then wrap / clamp), the constructors from int, float, Signed, Unsigned and other formats (value preserved; accepted where the constructor's own preconditions hold), equality with numbers, and + - * again end to end.",
        "assumptions": COMMON_ASSUME + [
            "a fixed point value is viewed as (width, exponent, raw integer); the type qualifier around the raw vector forwards operators to the wrapped Signed/Unsigned (pass-through glue)",
            "resize_fn is bit-level traced code (msb/lsb/choose_first over Bit values): bounded only -- formats with left,right in [-3,3] and width <= 4 (quick) / all 28 formats in [-3,3] (thorough), all raw values",
            "float construction is checked for representable numbers only (the statement speaks of representable numbers); int(val / 2**exp) goes through an IEEE double, exact within the bound",
            "emitted logic for run-time operands is not executed (no VHDL simulator); it rests on the per-operator contracts of C02/C09",
        ],
        "extra": ["contracts.c19_fixed.fixed_sweep", "contracts.c17_extra.template_key_sweep"],
        "canaries": [
            {"name": "add-growth-bit", "contract": "cohdl.std._fixed:SFixed.__add__", "case": "a-finer,a-higher", "file": "cohdl/std/_fixed.py",
             "old": "        target_left = max(self.left(), other.left()) + 1\n        target_width = target_left - target_right + 1\n\n        lhs_zeros = self.right() - target_right\n        rhs_zeros = other.right() - target_right\n\n        return SFixed[target_left:target_right](\n            raw=self._val.resize(target_width, zeros=lhs_zeros)\n            + other._val.resize(target_width, zeros=rhs_zeros)",
             "new": "        target_left = max(self.left(), other.left() + 1)\n        target_width = target_left - target_right + 1\n\n        lhs_zeros = self.right() - target_right\n        rhs_zeros = other.right() - target_right\n\n        return SFixed[target_left:target_right](\n            raw=self._val.resize(target_width, zeros=lhs_zeros)\n            + other._val.resize(target_width, zeros=rhs_zeros)"},
            {"name": "mul-exponent", "contract": "cohdl.std._fixed:UFixed.__mul__", "case": "formats", "file": "cohdl/std/_fixed.py",
             "old": "        return UFixed[self.left() + other.left() + 1 : self.right() + other.right()](", "new": "        return UFixed[self.left() + other.left() + 2 : self.right() + other.right() + 1]("},
        ],
    },
    "C18": {
        "modules": ["contracts.core_models", "contracts.c09_arith", "contracts.c09_bounded", "contracts.c13_types", "contracts.c13_views", "contracts.c18_proofs"],
        "level": "other",
        "explanation": "two layers. PROVED from the real source for symbolic inputs (arity enumerated): the priority selection _first_impl behind choose_first / count_elements_* / count_leading|trailing_*; the binary decomposition _repeat_filter_by_factor behind std.repeat; binary_fold is the left (right) fold of an ABSTRACT function (1-6 arguments) and batched_fold a bracketing of its arguments in order, each exactly once (1-9 arguments, batch sizes 2-4) -- hence equal to the fold for every associative function; rol / ror rotate by n for SYMBOLIC width and n (lemma schema mod-scale); _safe_add_unsigned returns the exact sum in max(width)+1 bits for symbolic widths. BOUNDED (labelled, never counted as proved): every listed helper (count_leading/trailing_*, count_elements_*, count, one_hot, is_one_hot, reverse_bits, rol/ror, l/rshift_fill, repeat/stretch/left/rightpad/pad, concat, apply_mask/Mask, batched/select_batch, minimum/maximum/min|max_element/min|max_index incl. first-extremum rule, clamp, choose_first/select/cond, binary_fold/batched_fold with a non-commutative associative operator, the CRC multi-bit step, the popcount tables and the overflow-free adder of count_set_bits) is executed natively on every input within the stated bound and compared with its mathematical definition. The helpers are higher-order traced code over cohdl values (std.Value, const_cond, as_pyeval): outside the prover's subset, hence bounded.",
        "assumptions": COMMON_ASSUME + [
            "count_set_bits / count_clear_bits are covered through their components only (tables, batching, adder, result width): called on a constant they crash the compiler (select_with on a constant selector), so no end-to-end value is observable without a simulator",
            "emitted logic of the helpers for run-time operands is not executed (no VHDL simulator); it rests on the per-operator contracts of C02/C09",
        ],
        "extra": ["contracts.c18_helpers.helpers_sweep"],
        "canaries": [
            {"name": "first-wins", "contract": "cohdl.std._core_utility:_first_impl", "case": "3-pairs", "file": "cohdl/std/_core_utility.py",
             "old": "        return first[1] if first[0] else _first_impl(*rest, default=default)", "new": "        return _first_impl(*rest, default=first[1] if first[0] else default)"},
        ],
    },
    "C11": {
        "modules": ["contracts.core_models", "contracts.c11_frames", "contracts.c06_sensitivity"],
        "level": "proof",
        "explanation": "per-item reasons why compilation is history independent: (1) exception-safe frames -- the real bodies of the functions that set global scratch state (statemachine singleton, block stack, entity instantiation info) are executed symbolically with every uncontracted callee returning OR raising, and on every exit the state is proved restored; (2) Entity._library_declaration is proved to emit library clauses in order of first use without iterating a set of strings; (3) a mechanical, exhaustive inventory of every module/class-level state written from a function, each item classified (scratch / cache / registry / per-entity), an unclassified item makes the check undecided; (4) bounded stand-in: compile histories of length <= 2 over a pool of accepted and rejected designs and several hash seeds must give byte-identical output; (5) ConvertPythonInstance.__exit__ is proved to leave no cached function definition behind (the cache keeps the values of the globals a function used: its key does not determine its content) and to discard every instantiation info; the history pool contains one entity compiled under two values of a module global; extern entities are registered for the discard of their cached template; the address map of an axi entity is cached per class (history designs v_axi_base / v_axi_derived); a statemachine rejected by the path check leaves no active StatemachineContext.",
        "assumptions": COMMON_ASSUME + [
            "in exception-safety mode an uncontracted callee either returns an opaque value or raises; it does not itself modify the scratch state under consideration (callees that do are under contract: StatemachineContext.enter/finish are interpreted)",
            "byte-identity of the output for ARBITRARY histories is not decided as such: the frame obligations, the inventory classification and the bounded sweep are the per-item reasons it can fail",
            "scratch state classified 'dead on entry' (IrGenerator.returned_blocks/_break_result/_continue_result, Statement._current_frame) is argued, not proved: every read is dominated by a write of the same compilation / only error locations depend on it",
            "known and NOT detected by a check: std._context._current_context is not reset when a design is rejected inside a std.sequential body (SequentialContext.current() of a later concurrent context would see it)",
        ],
        "extra": ["contracts.c11_extra.state_inventory", "contracts.c11_extra.history_sweep"],
        "canaries": [
            {"name": "singleton-restore", "contract": "cohdl._compiler.frontend._generate_ir:IrGenerator._apply_impl", "case": "statemachine", "file": "cohdl/_compiler/frontend/_generate_ir.py",
             "old": "                ir.StatemachineContext._singleton = None\n                raise", "new": "                pass\n                raise"},
            {"name": "instantiated-reset", "contract": "cohdl._core._context:Entity.__init__", "case": "first-instantiation", "file": "cohdl/_core/_context.py",
             "old": "                info.instantiated = None\n                raise", "new": "                pass\n                raise"},
        ],
    },
    "C07": {
        "modules": ["contracts.core_models", "contracts.c13_types", "contracts.c07_drivers", "contracts.c07_always", "contracts.c12_instances", "contracts.c03_refvisit", "contracts.c07_scopes", "contracts.c06_names"],
        "level": "proof",
        "explanation": "the usage check of ir.EntityTemplate.__init__ is proved against a per-event contract stated for ARBITRARY ghost maps (writer / user per root): a write or push to an input port, a second writer (context or instance output, in either order, slices and views through their root), or a variable / intermediate used by a second context is rejected, otherwise the maps are updated for exactly that root; the instance loop treats every output port (also two outputs of the same instance) as a driver. By induction on the event stream a normal return implies one driver per root. The hoisted always expression of a sequential context is a SEPARATE driver / user (stream cases: a signal written in both, a process Variable read by the always expression are rejected; Sequential.visit_objects delivers always expression, sensitivity signals and body once each and can leave the always expression out); an inout port of an instance on an input port of the entity is rejected. convert_sequential replaces every temporary of the always expression, also inside reference paths, by a signal. complete_setup gives every object of a scope its own name (two objects with one name would be one VHDL signal with the drivers of both). BOUNDED: AliasScope keeps one alias map per architecture (all operation sequences <= 4 / 5 over <= 2 / 3 scopes, real class).",
        "assumptions": COMMON_ASSUME + [
            "identity maps (IdMap) are maps keyed by object identity; the ghost maps answer membership arbitrarily but consistently",
            "every IR statement reports all objects it writes / reads through visit_objects: decided class by class by the mechanical enumeration contracts.c07_visit.visit_completeness (real constructors, marker objects, report + replace); Event / EventGroup / Statemachine / Sequential are covered through their parts only",
            "NOT decided: driver sets recomputed from the emitted text; placement of inline entities by the tracer; VhdlScope.declare's sibling-scope rule and ConvertInstance.apply's concurrent-context rules have no contract yet",
        ],
        "extra": ["contracts.c07_visit.visit_completeness", "contracts.c07_visit.block_walks", "contracts.c07_extra.alias_scopes"],
        "canaries": [
            {"name": "push-is-a-write", "contract": "cohdl._core._ir._repr:EntityTemplate.__init__", "case": "ctx-event:signal:PUSH", "file": "cohdl/_core/_ir/_repr.py",
             "old": "            if access is AccessFlags.WRITE or access is AccessFlags.PUSH:\n                if isinstance(obj, Port) and obj.is_input():", "new": "            if access is AccessFlags.WRITE:\n                if isinstance(obj, Port) and obj.is_input():"},
        ],
    },
    "C08": {
        "modules": ["contracts.core_models", "contracts.c08_temporaries", "contracts.c08_cleanup", "contracts.c03_refvisit", "contracts.c12_actuals", "contracts.c02_assembler", "contracts.c07_always", "contracts.c03_if", "contracts.c08_merged", "contracts.c08_select"],
        "level": "proof",
        "explanation": "the definite-assignment analysis of compiler-generated intermediates (detect_uninitialized_temporaries / search_invalid_temporaries) is proved sound against the textbook definite-assignment semantics of if / case (with and without default) / sequence by structural induction: sidecar loop invariants for the statement loop and the case-branch loop, the function's own contract as induction hypothesis for recursive calls, sets of object identities as z3 sets; every read (direct or through a reference path) is shown to reach the check; cleanup_unused is proved to remove only assignments whose root is read nowhere; StatemachineContext._check_temporaries is proved to accept a state only if the first access to every intermediate is a write; case subjects and choices are checked together with the run-time indices of their reference paths, inline-code results are definitions, event-guarded blocks are conditional; the test of every `if` is a boolean cast without reference path (c03_if); convert_sequential replaces every temporary of an always expression by a signal (c07_always).",
        "assumptions": COMMON_ASSUME + [
            "id() is injective on live objects; Python sets of ids are mathematical sets",
            "IR statements report every object they read / write through visit_objects and store the replacement a visitor returns: decided per class by the enumeration contracts.c07_visit.visit_completeness, which runs with this property too (the cleanup passes replace objects through it)",
            "temporaries marked maybe_uninitialized are exempt from the analysis by design (the user opted out)",
            "NOT decided: read/write order recomputed on the emitted process text; cleanup_bool_cast (cosmetic pass) is under a bounded structural check only",
        ],
        "extra": ["contracts.c07_visit.visit_completeness", "contracts.c08_select.select_default_sweep", "contracts.c08_select.concurrent_control_sweep"],
        "canaries": [
            {"name": "case-intersection", "contract": "cohdl._compiler.frontend._generate_ir:ConvertInstance.detect_uninitialized_temporaries", "case": "any-context", "file": "cohdl/_compiler/frontend/_generate_ir.py",
             "old": "                            always_defined &= branch_temporaries", "new": "                            always_defined.difference_update(branch_temporaries)"},
            {"name": "if-union", "contract": "cohdl._compiler.frontend._generate_ir:ConvertInstance.detect_uninitialized_temporaries", "case": "any-context", "file": "cohdl/_compiler/frontend/_generate_ir.py",
             "old": "                    always_defined = body_temporaries & else_temporaries", "new": "                    always_defined = body_temporaries | else_temporaries"},
        ],
    },
    "C06": {
        "modules": C06_MODULES,
        "level": "proof",
        "explanation": "clauses of C06 that are per-function facts are proved from the real source: name uniquification (complete_setup, loop invariants over uninterpreted strings: every name is new in its scope chain and against all reserved words), entity header names = architecture names, case statements end in `when others`, sensitivity join, cast typing (format_cast lemma shared with C05); two finite enumerations over the emitter source (reserved set covers every emitted predefined identifier; text templates have balanced parentheses). Added later, all from the real source: every declared name is a VALID identifier (uninterpreted predicate; known facts: the result of VhdlScope._valid_identifier is valid -- BOUNDED exhaustive sweep against the LRM grammar -- and a valid identifier followed by a positive decimal counter is valid); case statements / selected assignments only return when their choice texts are pairwise distinct (symbolic strings); comment texts and assertion messages cannot leave their comment / string literal (enumerated texts with every line-break character and quotation marks); library clauses cover extern entities; port-less entities get no empty port clause and a terminated instantiation statement; user reserved names are honoured case-insensitively; enumeration literals are legal identifiers, distinct per type and reserved in their scope; the selector of a case / selected assignment on an element of an array is written in the element type; scalar and vector port associations need the declared type of the formal (Entity.__init__, with C12); Array._assign accepts only arrays of the same size.",
        "assumptions": COMMON_ASSUME + VHDL_ASSUME + [
            "strings are uninterpreted (sort Str with lower/strip/concat/str(int) uninterpreted): no character-level reasoning inside complete_setup; the character-level fact (VhdlScope._valid_identifier returns a basic identifier) is a bounded exhaustive check over strings of length <= 4 (quick) / 5 (thorough) over one representative per character class, not a proof",
            "termination of the doubling loop of the name search is not proved",
            "expression / block writers are separate units: in statement-level contracts they only produce opaque text",
            "NOT decided: that a standards-conforming tool accepts the whole text; names of enumeration literals; completeness of the inferred sensitivity list (closure inside VhdlAssembler.apply); output ports never read (AliasScope) -- no contract yet",
        ],
        "extra": ["contracts.c06_extra.reserved_covers_emitted", "contracts.c06_extra.balanced_templates", "contracts.c06_extra.identifier_sweep", "contracts.c08_select.concurrent_control_sweep"],
        "canaries": [
            {"name": "halving-loop-case", "contract": "cohdl._compiler.backend.vhdl._vhdl_repr:VhdlScope.complete_setup", "case": "signal-named-top", "file": "cohdl/_compiler/backend/vhdl/_vhdl_repr.py",
             "old": "                    if name.lower() not in used_names:\n                        cnt -= step", "new": "                    if name not in used_names:\n                        cnt -= step"},
            {"name": "port-name-check", "contract": "cohdl._compiler.backend.vhdl._vhdl_repr:Entity._port_declarations", "case": "in-out@1", "file": "cohdl/_compiler/backend/vhdl/_vhdl_repr.py",
             "old": "                scope_name == name\n            ), f\"invalid port name", "new": "                scope_name == name or True\n            ), f\"invalid port name"},
        ],
    },
    "C13": {
        "modules": C13_MODULES,
        "level": "proof",
        "explanation": "the two lazily caching metaclass __getitem__ functions (_BitVector, _TypeQualifier) are proved, for an arbitrary cache state (= any history of first uses), to look up and store exactly the normalised key, return the cached class on a hit, and on a miss create exactly the classes with the bases the statement prescribes; qualified-object views (slice, index, iteration, .unsigned/.signed/.bitvector) are proved to keep root and qualifier and to denote exactly the aliased bit range; a bounded sweep checks the real classes under random creation orders; parametrising a parametrised primitive yields the family's regular class (nothing is derived from the parametrised type); Offset / Slice.simplify do not touch the list object shared with copies; left / right / msb / lsb request exactly the documented sub-range; cast views are written with the VHDL kind of their class (format_vhdl_cast), one-element slices keep the direction (_format_ref).",
        "assumptions": COMMON_ASSUME + [
            "type(name, bases, ns) creates a fresh class that is a subclass of exactly the reflexive-transitive closure of bases (CPython data model)",
            "recursive uses K[...] inside __getitem__ denote the canonical class of their parameters (induction on the nesting rank of the parameter: Unsigned[n] -> Unsigned, BitVector[n] -> BitVector -> base)",
            "the caches _SubTypes are written by no other function (mechanical inventory: see C11)",
            "generator __iter__ is executed eagerly (the consumer exhausts it)",
            "_MetaArray.__getitem__ and Span element identity are covered by the bounded sweep / native checks only",
        ],
        "extra": ["contracts.c13_extra.lattice_sweep"],
        "canaries": [
            {"name": "iter-base-offset", "contract": "cohdl._core._type_qualifier:TypeQualifier.__iter__", "case": "BitVector.slice1", "file": "cohdl/_core/_type_qualifier.py",
             "old": "_ref_spec=[*prev, Offset(offset + nr, [*base_offset])],", "new": "_ref_spec=[*prev, Offset(offset + nr, [])],"},
            {"name": "port-parent", "contract": "cohdl._core._type_qualifier:_TypeQualifier.__getitem__", "case": "Port[Signed[w],INPUT]-miss", "file": "cohdl/_core/_type_qualifier.py",
             "old": "                                cls[Signed, direction],\n", "new": "                                cls[Unsigned, direction],\n"},
        ],
    },
    "C05": {
        "modules": C05_MODULES + ["contracts.c12_instances"],  # port connections: cohdl.Entity.__init__ (only that contract of the module is tagged C05)
        "level": "proof",
        "explanation": "acceptance and converted value of every primitive construction / assignment (Unsigned, Signed, BitVector, Bit, BitState) are proved equal to the conversion matrix of the statement for all widths and values; the backend cast selection (format_cast) is proved, for every (target root kind, view, whole/slice, value kind, literal/run-time) combination the front end accepts and all widths, to emit text whose numeric_std type is the declared object's type and whose bits are the converted bits; bit copies are bounded-checked natively; port connections (cohdl.Entity.__init__: same width, same declared vector / scalar type); Array._assign; _Boolean.__init__ accepts exactly the representable literals; whole-array assignments (next / push / value with Null, Full, list, tuple or array sources): the three setter replacements with an array target and TypeQualifier._perform_array_elem_assignment are under contract (element-wise assignment OF THE SOURCE, never a copy of the target's own placeholder), the emitted statements are evaluated natively for all 6 forms x 5 sources (BOUNDED, contracts.c05_arrays.array_assign_sweep).",
        "assumptions": COMMON_ASSUME + BITLEVEL_ASSUME + VHDL_ASSUME + [
            "the bit-copy part of _assign (Span.apply_zip, bin() round trips) is opaque to the prover and assumed not to raise: acceptance is proved, the stored value is checked by bounded native enumeration only",
            "format_cast lemma assumes the operand text has the VHDL type of the value's CoHDL type (format_value / format_vhdl_cast establish it; format_vhdl_cast is under contract as well)",
            "a backend AssertionError for a pair the front end accepts counts as a compile-time rejection (observed: literal Signed assigned to a .signed view of an Unsigned object)",
            "the setter replacements, _Redirect.__init__, _try_join (join type has the kind of every vector alternative) and the initialisation replacements are under contract; port connection (Entity.__init__ uses a plain `port <<= actual` check) is only covered by the C12 association contract",
        ],
        "extra": ["contracts.c05_extra.setter_replacements", "contracts.c05_arrays.array_assign_sweep"],
        "canaries": [
            {"name": "cast-resize-width", "contract": "cohdl._compiler.backend.vhdl._vhdl_repr:VhdlScope.format_cast", "case": "Unsigned.unsigned.whole<-Unsigned.tq", "file": "cohdl/_compiler/backend/vhdl/_vhdl_repr.py",
             "old": "                    else:\n                        assert target_type.width > value_type.width\n                        return f\"resize({value_str}, {target_type.width})\"\n                elif issubclass(value_type, Signed):\n                    if issubclass(target_type, Signed):\n                        if target_type.width != value_type.width:\n                            assert target_type.width > value_type.width\n                            value_str = f\"resize({value_str}, {target_type.width})\"\n                    else:\n                        assert target_type.width == value_type.width\n\n                    return f\"unsigned(std_logic_vector({value_str}))\"",
             "new": "                    else:\n                        assert target_type.width > value_type.width\n                        return f\"resize({value_str}, {value_type.width})\"\n                elif issubclass(value_type, Signed):\n                    if issubclass(target_type, Signed):\n                        if target_type.width != value_type.width:\n                            assert target_type.width > value_type.width\n                            value_str = f\"resize({value_str}, {target_type.width})\"\n                    else:\n                        assert target_type.width == value_type.width\n\n                    return f\"unsigned(std_logic_vector({value_str}))\""},
            {"name": "assign-narrowing", "contract": "cohdl._core._unsigned:Unsigned._assign", "case": "unsigned", "file": "cohdl/_core/_unsigned.py",
             "old": "                other.width <= self.width\n            ), f\"target width {self.width} is less than source width {other.width}\"",
             "new": "                other.width <= self.width + 1\n            ), f\"target width {self.width} is less than source width {other.width}\""},
        ],
    },
    "C09": {
        "modules": C05_MODULES + ["contracts.c02_replace", "contracts.c02_frontend", "contracts.c13_types", "contracts.c13_views", "contracts.c02_ops", "contracts.c09_tqparts"],
        "level": "proof",
        "explanation": "every arithmetic / shift / comparison / conversion method of Unsigned, Signed, Integer and cohdl.op.truncdiv/rem is proved equal (kind, width, value; rejections) to the documented operator semantics for all widths and values, from the real source; bit-level primitives are assumed and checked by bounded native enumeration; the emitted side of the comparison -- BinOp / Compare / UnaryOp.write -- and the views left / right / msb / lsb are under contract for this property as well.",
        "assumptions": COMMON_ASSUME + BITLEVEL_ASSUME + VHDL_ASSUME + [
            "compile-time folds that raise where the hardware would wrap (quotient overflow, division by zero, literal not representable in the vector operand) are rejections, outside the value contract",
        ],
        "canaries": [
            {"name": "mul-width", "contract": "cohdl._core._unsigned:Unsigned.__mul__", "case": "vec", "file": "cohdl/_core/_unsigned.py", "old": "    def __mul__(self, rhs: Unsigned) -> Unsigned:\n        if isinstance(rhs, Unsigned):\n            result_width = self.width + rhs.width\n", "new": "    def __mul__(self, rhs: Unsigned) -> Unsigned:\n        if isinstance(rhs, Unsigned):\n            result_width = self.width + rhs.width + 1\n"},
            {"name": "signed-rshift", "contract": "cohdl._core._signed:Signed.__rshift__", "case": "int", "file": "cohdl/_core/_signed.py", "old": "        val = self.to_int() >> rhs\n        return Signed[self.width](val)", "new": "        val = abs(self.to_int()) >> rhs\n        return Signed[self.width](val)"},
        ],
    },
}
