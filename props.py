"""Per-property configuration of the checks (see DESIGN.md section 6)."""

COMMON_ASSUME = [
    "Python semantics assumed by the encoding (DESIGN.md 5.2): mathematical ints, left-to-right evaluation, bool subclass of int, assert/raise messages are not evaluated",
    "2**e is the uninterpreted pow2 with ground-instantiated axioms (sound, incomplete)",
    "bit order of every vector is DOWNTO (BitVector[n] / BitVector[n-1:0]); UPTO vectors are outside the contracts",
]

BITLEVEL_ASSUME = [
    "ASSUMED at call sites, backed by the bounded native check of the real function (not proved): Unsigned/Signed.to_int, Unsigned.add / Signed.add ripple-carry loop, _uint_to_binary/_int_to_binary, BitVector.__init__ bit copy, BitVector.__invert__/copy/left/right",
]

VHDL_ASSUME = [
    "numeric_std / std_logic_1164 operator semantics are those transcribed in specs/cohdl_semantics.py (no VHDL tool in the sandbox); counterexamples are replayed against the Python code only",
]

PROPERTIES = {
    "C09": {
        "modules": ["contracts.core_models", "contracts.c09_arith", "contracts.c09_bounded"],
        "level": "proof",
        "explanation": "every arithmetic / shift / comparison / conversion method of Unsigned, Signed, Integer and cohdl.op.truncdiv/rem is proved equal (kind, width, value; rejections) to the documented operator semantics for all widths and values, from the real source; bit-level primitives are assumed and checked by bounded native enumeration",
        "assumptions": COMMON_ASSUME + BITLEVEL_ASSUME + VHDL_ASSUME + [
            "compile-time folds that raise where the hardware would wrap (quotient overflow, division by zero, literal not representable in the vector operand) are rejections, outside the value contract",
        ],
        "canaries": [
            {"name": "mul-width", "contract": "cohdl._core._unsigned:Unsigned.__mul__", "case": "vec", "file": "cohdl/_core/_unsigned.py", "old": "            result_width = self.width + rhs.width\n            lhs = self.to_int()\n            rhs = rhs.to_int()\n        elif isinstance(rhs, (int, Integer)):\n            result_width = 2 * self.width\n            lhs = self.to_int()\n            rhs = int(rhs)\n        else:\n            return NotImplemented\n\n        return Unsigned[result_width](lhs * rhs)\n\n    @_intrinsic\n    def __rmul__", "new": "            result_width = self.width + rhs.width + 1\n            lhs = self.to_int()\n            rhs = rhs.to_int()\n        elif isinstance(rhs, (int, Integer)):\n            result_width = 2 * self.width\n            lhs = self.to_int()\n            rhs = int(rhs)\n        else:\n            return NotImplemented\n\n        return Unsigned[result_width](lhs * rhs)\n\n    @_intrinsic\n    def __rmul__"},
            {"name": "signed-rshift", "contract": "cohdl._core._signed:Signed.__rshift__", "case": "int", "file": "cohdl/_core/_signed.py", "old": "        val = self.to_int() >> rhs\n        return Signed[self.width](val)", "new": "        val = abs(self.to_int()) >> rhs\n        return Signed[self.width](val)"},
        ],
    },
}
