#!/usr/bin/env python3-vt
"""replay of a failed obligation: runs the real code in /repo on the failing input.
usage: python3-vt <this file>   (exit 1 = the failure reproduces)"""
import os, sys
sys.path.insert(0, os.path.join(os.path.dirname(os.path.abspath(__file__)), '..', '..'))
REPLAY = {
 "property": "C09",
 "contract": "cohdl._core._unsigned:Unsigned.__sub__",
 "case": "none",
 "obligation": "cohdl._core._unsigned:Unsigned.__sub__[none]#native",
 "assignment": {
  "w1": 4,
  "a": 15
 },
 "verifier_output": {
  "real": "('raise', <class 'TypeError'>)",
  "spec": "('return', NotImplemented)"
 },
 "modules": [
  "contracts.core_models",
  "contracts.c09_arith",
  "contracts.c09_bounded"
 ],
 "reproduced": True,
 "native_result": {
  "real": "('raise', <class 'TypeError'>)",
  "spec": "('return', NotImplemented)",
  "rejected": False
 }
}
from pyvc.replay import main
sys.exit(main(REPLAY))
