#!/bin/bash
# Regression net for repairs in /repo: the demo of every seeded change prints PASS on a tree WITHOUT that change.
# usage: tools_demos.sh <tree>      (prints the demos that do not end with PASS; exit 1 if there is one)
tree=${1:-/repo}
cd "$(dirname "$0")/seeded" || exit 3
run_demo() { d=$1; out=$(cd "$d" && PYTHONPATH=$2 timeout 900 /venv/bin/python demo.py 2>&1); rc=$?; out=$(echo "$out" | tail -1); [ $rc = 0 ] && out=PASS; echo "$d :: $out"; }  # exit status decides (the demos of round 8 print other last lines)
export -f run_demo
ls -d */ | tr -d / | xargs -P 14 -I{} bash -c "run_demo {} $tree" > /tmp/demos_all.$$ 2>&1
bad=$(grep -vc ":: PASS" /tmp/demos_all.$$)
grep -v ":: PASS" /tmp/demos_all.$$ | cut -c1-240
echo "demos: $(wc -l < /tmp/demos_all.$$) run, $bad not PASS"
rm -f /tmp/demos_all.$$
[ "$bad" = 0 ]
